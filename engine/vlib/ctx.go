// Package vlib holds what every check shares: run context, evidence file, violation reporting with
// re-runs and replay files, known-findings handling, parallel index ranges.
package vlib

import (
	"bufio"
	"crypto/sha1"
	"encoding/hex"
	"encoding/json"
	"flag"
	"fmt"
	"os"
	"path/filepath"
	"runtime"
	"runtime/debug"
	"sort"
	"strings"
	"sync"
	"sync/atomic"
	"time"
)

// A Failure is the result of judging one case: nil means the property held for it.
type Failure struct {
	Detail string // what was observed and what was expected
}

func Failf(format string, a ...any) *Failure { return &Failure{Detail: fmt.Sprintf(format, a...)} }

// Ctx is the state of one check run.
type Ctx struct {
	// Quiesce: judges run under its read lock; the re-runs of a failing witness take the write lock
	Quiesce  sync.RWMutex
	Prop     string
	Tier     string
	Seed     int64
	VerifDir string
	RepoDir  string
	Replay   string
	Start    time.Time
	Deadline time.Time // internal deadline: enumeration stops, evidence says exhaustive:false

	mu          sync.Mutex
	cov         map[string]any
	samples     []any
	assumptions []string
	caps        []string
	violations  []violation
	knownHit    map[int]int
	known       []knownEntry
	matchers    map[string]func(caseJSON []byte) bool
	stop        atomic.Bool
	capped      atomic.Bool

	Evaluations atomic.Int64
	Nontrivial  atomic.Int64
	States      atomic.Int64
	Transitions atomic.Int64
}

type violation struct {
	replayPath string
	detail     string
}

type knownEntry struct {
	prop, match, text string
}

const MaxViolations = 3

// Parse command line and build the context.
func NewCtx() *Ctx {
	c := &Ctx{cov: map[string]any{}, knownHit: map[int]int{}, matchers: map[string]func([]byte) bool{}}
	flag.StringVar(&c.Prop, "prop", "", "property id")
	flag.StringVar(&c.Tier, "tier", "quick", "quick|thorough")
	flag.Int64Var(&c.Seed, "seed", 0, "recorded only; every enumeration order is fixed")
	flag.StringVar(&c.VerifDir, "verif", "/verif", "verification directory")
	flag.StringVar(&c.RepoDir, "repo", "/repo", "repository the harness was built with")
	flag.StringVar(&c.Replay, "replay", "", "replay file")
	flag.Parse()
	c.Start = time.Now()
	lim := 240 * time.Second
	if c.Tier == "thorough" {
		lim = 40 * time.Minute
	}
	if v := os.Getenv("VERIF_DEADLINE_S"); v != "" {
		var s int
		fmt.Sscanf(v, "%d", &s)
		if s > 0 {
			lim = time.Duration(s) * time.Second
		}
	}
	c.Deadline = c.Start.Add(lim)
	c.loadKnown()
	return c
}

func (c *Ctx) Thorough() bool { return c.Tier == "thorough" }

// Pick returns q for the quick tier and t for the thorough tier.
func Pick[T any](c *Ctx, q, t T) T {
	if c.Thorough() {
		return t
	}
	return q
}

func (c *Ctx) Set(key string, v any) {
	c.mu.Lock()
	c.cov[key] = v
	c.mu.Unlock()
}

func (c *Ctx) Assume(s string) {
	c.mu.Lock()
	c.assumptions = append(c.assumptions, s)
	c.mu.Unlock()
}

// Sample records an explored case for the evidence file (at most 12 are kept).
func (c *Ctx) Sample(v any) {
	c.mu.Lock()
	if len(c.samples) < 12 {
		c.samples = append(c.samples, v)
	}
	c.mu.Unlock()
}

// SampleAt records v if n is one of a fixed set of indices (1, 2, 3, 10, 100, 1000, ...).
func (c *Ctx) SampleAt(n int64, mk func() any) {
	if n <= 3 || isPow10(n) {
		c.Sample(mk())
	}
}

func isPow10(n int64) bool {
	for n >= 10 {
		if n%10 != 0 {
			return false
		}
		n /= 10
	}
	return n == 1
}

// Stopped reports whether enumeration must end (violation budget exhausted or deadline passed).
func (c *Ctx) Stopped() bool {
	if c.stop.Load() {
		return true
	}
	return false
}

// CheckDeadline is called now and then by enumerators; when the internal deadline has passed it records
// the cap and makes Stopped() true.
func (c *Ctx) CheckDeadline(what string) bool {
	if c.stop.Load() {
		return true
	}
	if time.Now().After(c.Deadline) {
		if !c.capped.Swap(true) {
			c.mu.Lock()
			c.caps = append(c.caps, "internal deadline reached during "+what)
			c.mu.Unlock()
		}
		c.stop.Store(true)
		return true
	}
	return false
}

// Cap records that part of the space was not enumerated completely.
func (c *Ctx) Cap(what string) {
	c.capped.Store(true)
	c.mu.Lock()
	c.caps = append(c.caps, what)
	c.mu.Unlock()
}

// RegisterMatcher makes a predicate available to KNOWN_FINDINGS.txt entries (match=<name>).
func (c *Ctx) RegisterMatcher(name string, f func(caseJSON []byte) bool) { c.matchers[name] = f }

func (c *Ctx) loadKnown() {
	f, err := os.Open(filepath.Join(c.VerifDir, "KNOWN_FINDINGS.txt"))
	if err != nil {
		return
	}
	defer f.Close()
	sc := bufio.NewScanner(f)
	for sc.Scan() {
		line := strings.TrimSpace(sc.Text())
		if !strings.HasPrefix(line, "known:") {
			continue // "fixed:" entries and comments suppress nothing
		}
		fs := strings.Fields(strings.TrimPrefix(line, "known:"))
		var e knownEntry
		var rest []string
		for _, w := range fs {
			switch {
			case strings.HasPrefix(w, "property=") && e.prop == "":
				e.prop = strings.TrimPrefix(w, "property=")
			case strings.HasPrefix(w, "match=") && e.match == "":
				e.match = strings.TrimPrefix(w, "match=")
			default:
				rest = append(rest, w)
			}
		}
		e.text = strings.Join(rest, " ")
		c.known = append(c.known, e)
	}
}

// Violation handles a failing case: it is re-judged five times (a witness that does not reproduce is a
// harness error, not a violation), matched against the known findings, and otherwise written to a replay
// file and announced. kase must be JSON-serialisable and sufficient for rejudge-by-replay.
func (c *Ctx) Violation(kase any, first *Failure, rejudge func() *Failure, testText string) {
	if first == nil || c.stop.Load() {
		return // (enough violations have been recorded: the run is winding down)
	}
	data, err := json.Marshal(kase)
	if err != nil {
		HarnessError("cannot serialise witness: %v", err)
	}
	if rejudge != nil {
		// the re-runs happen while no other worker is inside a judge: if the code under test keeps process-wide
		// mutable state, concurrent judges would otherwise make the witness look flaky
		c.Quiesce.Lock()
		rerun := func() int { // number of the first re-run that does not reproduce the failure, 0 if all five do
			for i := 1; i <= 5; i++ {
				if rejudge() == nil {
					return i
				}
			}
			return 0
		}
		if bad := rerun(); bad != 0 {
			// once more on one processor: per-processor caches (sync.Pool) of the code under test then behave the same
			// way in every re-run. (Not by default: the other workers' enumeration would crawl on the one processor.)
			procs := runtime.GOMAXPROCS(1)
			bad2 := rerun()
			runtime.GOMAXPROCS(procs)
			if bad2 != 0 {
				c.Quiesce.Unlock()
				HarnessError("witness did not reproduce on re-run %d (nor on re-run %d on a single processor; nondeterministic harness): %s :: %s", bad, bad2, string(data), first.Detail)
			}
		}
		c.Quiesce.Unlock()
	}
	c.mu.Lock()
	defer c.mu.Unlock()
	for i, k := range c.known {
		if k.prop != c.Prop {
			continue
		}
		m := c.matchers[k.match]
		if m != nil && m(data) {
			c.knownHit[i]++
			return
		}
	}
	if len(c.violations) >= MaxViolations {
		c.stop.Store(true)
		return
	}
	sum := sha1.Sum(data)
	dir := filepath.Join(c.VerifDir, "replays", c.Prop)
	os.MkdirAll(dir, 0o755)
	path := filepath.Join(dir, hex.EncodeToString(sum[:6])+".json")
	rf := map[string]any{"property": c.Prop, "case": json.RawMessage(data), "detail": first.Detail, "test_text": testText}
	out, _ := json.MarshalIndent(rf, "", " ")
	os.WriteFile(path, out, 0o644)
	c.violations = append(c.violations, violation{path, first.Detail})
	if len(c.violations) >= MaxViolations {
		c.stop.Store(true)
	}
}

// Violated reports whether a violation has been recorded so far.
func (c *Ctx) Violated() bool {
	c.mu.Lock()
	defer c.mu.Unlock()
	return len(c.violations) > 0
}

// LoadReplay returns the raw case of a replay file.
func (c *Ctx) LoadReplay() []byte {
	raw, err := os.ReadFile(c.Replay)
	if err != nil {
		HarnessError("cannot read replay file: %v", err)
	}
	var rf struct {
		Property string          `json:"property"`
		Case     json.RawMessage `json:"case"`
	}
	if err := json.Unmarshal(raw, &rf); err != nil {
		HarnessError("cannot parse replay file: %v", err)
	}
	if rf.Property != c.Prop {
		HarnessError("replay file is for property %s, not %s", rf.Property, c.Prop)
	}
	return rf.Case
}

func HarnessError(format string, a ...any) {
	fmt.Printf("HARNESS-ERROR "+format+"\n", a...)
	os.Exit(2)
}

// Finish writes the evidence file and returns the process exit status.
func (c *Ctx) Finish(level string, rule string) int {
	c.mu.Lock()
	defer c.mu.Unlock()
	cov := c.cov
	cov["evaluations"] = c.Evaluations.Load()
	cov["distinct_nontrivial"] = c.Nontrivial.Load()
	cov["states"] = c.States.Load()
	cov["transitions"] = c.Transitions.Load()
	if _, ok := cov["traces_validated_against_impl"]; !ok {
		// every explored execution is an execution of the real code
		cov["traces_validated_against_impl"] = c.Evaluations.Load()
	}
	cov["rule"] = rule
	if len(c.samples) == 0 {
		c.samples = append(c.samples, "no case was explored")
	}
	cov["samples"] = c.samples
	if _, ok := cov["exhaustive"]; !ok {
		cov["exhaustive"] = true
	}
	if c.capped.Load() || len(c.violations) > 0 {
		cov["exhaustive"] = false
	}
	if len(c.caps) > 0 {
		cov["caps_hit"] = c.caps
	}
	var knownLines []string
	idx := make([]int, 0, len(c.knownHit))
	for i := range c.knownHit {
		idx = append(idx, i)
	}
	sort.Ints(idx)
	for _, i := range idx {
		k := c.known[i]
		knownLines = append(knownLines, fmt.Sprintf("KNOWN-FINDING: property=%s %s", k.prop, k.text))
		cov["known_finding_"+k.match] = c.knownHit[i]
	}
	ev := map[string]any{
		"property_id": c.Prop,
		"tier":        c.Tier,
		"seed":        c.Seed,
		"level":       level,
		"coverage":    cov,
		"assumptions": append([]string{"Go toolchain, standard library and golang.org/x/net behave as documented", "the harness (engine/) itself"}, c.assumptions...),
		"wall_s":      time.Since(c.Start).Seconds(),
		"violations":  len(c.violations),
		"repo":        c.RepoDir,
		"gomaxprocs":  runtime.GOMAXPROCS(0),
	}
	if c.Replay == "" {
		out, _ := json.MarshalIndent(ev, "", " ")
		dir := filepath.Join(c.VerifDir, "evidence")
		if d := os.Getenv("VERIF_EVIDENCE_DIR"); d != "" {
			dir = d // used by selftest so that runs against scratch copies do not overwrite the real evidence
		}
		os.MkdirAll(dir, 0o755)
		tmp := filepath.Join(dir, c.Prop+".json.tmp")
		if err := os.WriteFile(tmp, out, 0o644); err != nil {
			HarnessError("cannot write evidence: %v", err)
		}
		os.Rename(tmp, filepath.Join(dir, c.Prop+".json"))
	}
	for _, l := range knownLines {
		fmt.Println(l)
	}
	fmt.Printf("%s tier=%s evaluations=%d states=%d transitions=%d distinct_nontrivial=%d exhaustive=%v wall=%.1fs\n",
		c.Prop, c.Tier, c.Evaluations.Load(), c.States.Load(), c.Transitions.Load(), c.Nontrivial.Load(), cov["exhaustive"], time.Since(c.Start).Seconds())
	for _, cp := range c.caps {
		fmt.Println("cap:", cp)
	}
	if len(c.violations) > 0 {
		for _, v := range c.violations {
			fmt.Printf("detail: %s\n", v.detail)
			fmt.Printf("VIOLATION property=%s replay=%s\n", c.Prop, v.replayPath)
		}
		return 1
	}
	return 0
}

// ParRange calls fn(i) for every i in [0,n) on all cores, in chunks; fn must be safe for concurrent use.
// It returns early when the context is stopped. The order of calls is not fixed but the set is.
func (c *Ctx) ParRange(n int64, chunk int64, what string, fn func(i int64)) {
	workers := runtime.GOMAXPROCS(0)
	if chunk <= 0 {
		chunk = 64
	}
	var next atomic.Int64
	var wg sync.WaitGroup
	for w := 0; w < workers; w++ {
		wg.Add(1)
		go func() {
			defer wg.Done()
			for {
				lo := next.Add(chunk) - chunk
				if lo >= n {
					return
				}
				if c.CheckDeadline(what) {
					return
				}
				hi := min(lo+chunk, n)
				for lo < hi {
					lo = c.runChunk(lo, hi, what, fn)
				}
			}
		}()
	}
	wg.Wait()
}

// runChunk calls fn for lo..hi-1; a panic of the code under test at index i becomes a violation (a crashed
// call yields no correct answer) and the chunk is resumed at i+1.
func (c *Ctx) runChunk(lo, hi int64, what string, fn func(i int64)) (next int64) {
	i := lo
	defer func() {
		if r := recover(); r != nil {
			st := string(debug.Stack())
			if len(st) > 2500 {
				st = st[:2500]
			}
			c.Violation(map[string]any{"enumeration": what, "index": i, "panic": fmt.Sprint(r)},
				Failf("panic while exploring %s at index %d: %v\n%s", what, i, r, st), nil, "")
			next = i + 1
		}
	}()
	for ; i < hi; i++ {
		fn(i)
	}
	return hi
}
