package vlib

import (
	"context"
	"crypto/tls"
	"fmt"
	"io"
	"net/http"
	"net/url"
	"runtime/debug"
	"sort"
	"strings"
	"time"
)

// Req is a JSON-serialisable request: method plus header field lines (canonical keys as Go's server
// would produce them; a key with a zero-length list is representable on purpose).
type Req struct {
	Method string              `json:"method"`
	Hdr    map[string][]string `json:"hdr,omitempty"`
	Attr   string              `json:"attr,omitempty"` // one of Attrs, or ""
}

// Attrs are properties of an http.Request other than its method and headers that a server-side component could
// look at: protocol version, TLS, Host, path, remote address, a body.
var Attrs = []string{"h2", "h3", "h1.0", "tls", "host", "path", "remote", "body", "cancelled", "deadline-passed", "context-values", "options-star", "absolute-uri", "empty-path", "nil-body-h1.1-close", "trailers"}

func (r Req) attrSuffix() string {
	if r.Attr == "" {
		return ""
	}
	return " [" + r.Attr + "]"
}

func (r Req) String() string {
	keys := make([]string, 0, len(r.Hdr))
	for k := range r.Hdr {
		keys = append(keys, k)
	}
	sort.Strings(keys)
	var b strings.Builder
	b.WriteString(r.Method)
	for _, k := range keys {
		fmt.Fprintf(&b, " %s=%q", k, r.Hdr[k])
	}
	return b.String() + r.attrSuffix()
}

// HTTP builds a fresh *http.Request (header slices are copied: nothing is aliased between executions).
func (r Req) HTTP() *http.Request {
	h := make(http.Header, len(r.Hdr))
	for k, v := range r.Hdr {
		h[k] = append(make([]string, 0, len(v)), v...)
	}
	q := &http.Request{Method: r.Method, Header: h, URL: &url.URL{Path: "/"}, Proto: "HTTP/1.1", ProtoMajor: 1, ProtoMinor: 1, Host: "server.test"}
	switch r.Attr {
	case "h2":
		q.Proto, q.ProtoMajor, q.ProtoMinor = "HTTP/2.0", 2, 0
	case "h3":
		q.Proto, q.ProtoMajor, q.ProtoMinor = "HTTP/3.0", 3, 0
	case "h1.0":
		q.Proto, q.ProtoMajor, q.ProtoMinor = "HTTP/1.0", 1, 0
	case "tls":
		q.TLS = &tls.ConnectionState{ServerName: "server.test"}
	case "options-star":
		// the asterisk-form request target of RFC 9110 9.3.7 (what a server with DisableGeneralOptionsHandler sees)
		q.URL = &url.URL{Path: "*"}
		q.RequestURI = "*"
	case "absolute-uri":
		q.URL = &url.URL{Scheme: "http", Host: "proxy.example", Path: "/x"}
		q.RequestURI = "http://proxy.example/x"
	case "empty-path":
		q.URL = &url.URL{}
		q.RequestURI = ""
	case "nil-body-h1.1-close":
		q.Close = true
		q.Header.Set("Connection", "close")
	case "trailers":
		q.Trailer = http.Header{"X-Trailer": nil}
		q.TransferEncoding = []string{"chunked"}
	case "cancelled":
		ctx, cancel := context.WithCancel(context.Background())
		cancel()
		q = q.WithContext(ctx)
	case "deadline-passed":
		ctx, cancel := context.WithDeadline(context.Background(), time.Unix(1, 0))
		cancel()
		q = q.WithContext(ctx)
	case "context-values":
		q = q.WithContext(context.WithValue(context.Background(), ctxKey{}, "v"))
	case "host":
		q.Host = "a.example"
	case "path":
		q.URL = &url.URL{Path: "/admin/cors", RawQuery: "origin=https://a.example"}
		q.RequestURI = "/admin/cors?origin=https://a.example"
	case "remote":
		q.RemoteAddr = "127.0.0.1:4711"
	case "body":
		q.ContentLength = 5
		q.Body = io.NopCloser(strings.NewReader("hello"))
	}
	return q
}

type ctxKey struct{}

// Rec is a minimal recording http.ResponseWriter.
type Rec struct {
	H      http.Header
	Status int // first status passed to WriteHeader, 0 if never called
	Body   []byte
	WroteN int // number of WriteHeader calls
	// AllowRewrite: count further WriteHeader calls after a final status (in WroteN) instead of treating them as errors
	AllowRewrite bool
}

func NewRec() *Rec { return &Rec{H: make(http.Header)} }

// Reset clears the recorder for reuse (the header map is emptied, not reallocated).
func (r *Rec) Reset() {
	clear(r.H)
	r.Status, r.WroteN, r.Body = 0, 0, r.Body[:0]
}

func (r *Rec) Header() http.Header { return r.H }
func (r *Rec) WriteHeader(code int) {
	if code < 100 || code > 999 {
		panic(fmt.Sprintf("invalid WriteHeader code %v", code)) // as net/http's response writer and httptest's recorder do
	}
	if r.Status >= 200 && !r.AllowRewrite {
		// net/http ignores the call and logs "superfluous response.WriteHeader call"; writers that buffer keep the last
		// status and the headers as they are then. Either way one of the two answers is not what the client gets.
		panic(fmt.Sprintf("WriteHeader(%d) called after WriteHeader(%d) for the same request", code, r.Status))
	}
	r.WroteN++
	if r.Status == 0 || r.Status < 200 {
		r.Status = code
	}
}
func (r *Rec) Write(p []byte) (int, error) {
	if r.Status == 0 {
		r.Status = 200
	}
	r.Body = append(r.Body, p...)
	return len(p), nil
}

// Resp is the observable outcome of serving one request.
type Resp struct {
	Status       int                 `json:"status"` // 200 when the chain never wrote a status (net/http's default)
	Hdr          map[string][]string `json:"hdr"`
	Body         string              `json:"body,omitempty"`
	HandlerCalls int                 `json:"handler_calls"`
	ExtraWrites  int                 `json:"superfluous_writeheader_calls,omitempty"` // WriteHeader calls beyond the first
}

// Sig is a canonical rendering of a response used for equality tests.
func (r Resp) Sig() string {
	keys := make([]string, 0, len(r.Hdr))
	for k := range r.Hdr {
		keys = append(keys, k)
	}
	sort.Strings(keys)
	var b strings.Builder
	fmt.Fprintf(&b, "%d|h%d|", r.Status, r.HandlerCalls)
	if r.ExtraWrites > 0 {
		fmt.Fprintf(&b, "superfluous-WriteHeader-calls=%d|", r.ExtraWrites)
	}
	for _, k := range keys {
		b.WriteString(k)
		b.WriteByte('=')
		for _, v := range r.Hdr[k] {
			b.WriteString(v)
			b.WriteByte(0x1f)
		}
		b.WriteByte('|')
	}
	b.WriteString(r.Body)
	return b.String()
}

// Serve runs one request through h (already wrapped) with optional pre-set response headers.
func Serve(h http.Handler, calls *int, req Req, preset map[string][]string) Resp {
	rec := NewRec()
	// an earlier link of the chain put its own, long-lived value slices into the map (w.Header()[k] = v): replacing
	// a header is the middleware's right, writing through into that storage is not. (The slices are private to this
	// call: preset itself is shared by concurrent callers and is only read.)
	own := make(map[string][]string, len(preset))
	for k, v := range preset {
		own[k] = append([]string(nil), v...)
		rec.H[k] = own[k][:len(v):len(v)]
	}
	defer func() {
		for k, v := range preset {
			for i := range v {
				if own[k][i] != v[i] {
					panic(fmt.Sprintf("the value slice that an earlier handler had stored under %q in the response header map was overwritten in place: element %d was %q, is now %q", k, i, v[i], own[k][i]))
				}
			}
		}
	}()
	before := 0
	if calls != nil {
		before = *calls
	}
	h.ServeHTTP(rec, req.HTTP())
	st := rec.Status
	if st == 0 {
		st = 200
	}
	res := Resp{Status: st, Hdr: map[string][]string{}, Body: string(rec.Body), ExtraWrites: max(0, rec.WroteN-1)}
	for k, v := range rec.H {
		if len(v) == 0 {
			continue // a key with zero values produces no field line on the wire
		}
		res.Hdr[k] = append([]string(nil), v...)
	}
	// what an outer layer may do once the handler has returned (a compression layer adds to Vary, a logger adds a
	// header): append to the value slices it finds. On slices with spare capacity this writes behind their end.
	for k, v := range rec.H {
		rec.H[k] = append(v, "appended-by-an-outer-layer")
	}
	if calls != nil {
		res.HandlerCalls = *calls - before
	}
	return res
}

// Noop is an inner handler that only counts its invocations.
type Noop struct{ Calls int }

func (n *Noop) ServeHTTP(http.ResponseWriter, *http.Request) { n.Calls++ }

// Guard converts a panic of the code under test into a Failure (a crashed call yields no correct answer).
func Guard(f func() *Failure) (res *Failure) {
	defer func() {
		if r := recover(); r != nil {
			st := string(debug.Stack())
			if len(st) > 1500 {
				st = st[:1500]
			}
			res = Failf("panic: %v\n%s", r, st)
		}
	}()
	return f()
}
