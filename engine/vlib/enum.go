package vlib

import "strings"

// Words enumerates all sequences of at most maxLen symbols over alpha in length-lexicographic order
// (simplest first). Count() words exist; At(i) builds the i-th.
type Words struct {
	Alpha  []string
	MaxLen int
	offs   []int64 // offs[k] = number of words shorter than k
}

func NewWords(alpha []string, maxLen int) *Words {
	w := &Words{Alpha: alpha, MaxLen: maxLen}
	var total, p int64 = 0, 1
	for k := 0; k <= maxLen; k++ {
		w.offs = append(w.offs, total)
		total += p
		p *= int64(len(alpha))
	}
	w.offs = append(w.offs, total)
	return w
}

func (w *Words) Count() int64 { return w.offs[len(w.offs)-1] }

// Syms returns the symbol indices of the i-th word.
func (w *Words) Syms(i int64, buf []int) []int {
	k := 0
	for k < w.MaxLen && i >= w.offs[k+1] {
		k++
	}
	i -= w.offs[k]
	buf = buf[:0]
	for j := 0; j < k; j++ {
		buf = append(buf, 0)
	}
	n := int64(len(w.Alpha))
	for j := k - 1; j >= 0; j-- {
		buf[j] = int(i % n)
		i /= n
	}
	return buf
}

func (w *Words) At(i int64) string {
	var b strings.Builder
	var tmp [32]int
	for _, s := range w.Syms(i, tmp[:0]) {
		b.WriteString(w.Alpha[s])
	}
	return b.String()
}

// Product enumerates the cartesian product of dimensions with the given sizes; At fills idx for index i
// (last dimension varies fastest).
type Product struct{ Sizes []int }

func (p Product) Count() int64 {
	n := int64(1)
	for _, s := range p.Sizes {
		n *= int64(s)
	}
	return n
}

func (p Product) At(i int64, idx []int) []int {
	idx = idx[:0]
	for range p.Sizes {
		idx = append(idx, 0)
	}
	for d := len(p.Sizes) - 1; d >= 0; d-- {
		s := int64(p.Sizes[d])
		idx[d] = int(i % s)
		i /= s
	}
	return idx
}

// Permutations returns all permutations of 0..n-1 in lexicographic order.
func Permutations(n int) [][]int {
	var res [][]int
	cur := make([]int, 0, n)
	used := make([]bool, n)
	var rec func()
	rec = func() {
		if len(cur) == n {
			res = append(res, append([]int(nil), cur...))
			return
		}
		for i := 0; i < n; i++ {
			if !used[i] {
				used[i] = true
				cur = append(cur, i)
				rec()
				cur = cur[:len(cur)-1]
				used[i] = false
			}
		}
	}
	rec()
	return res
}
