package vlib

import (
	"fmt"
	"reflect"
	"sort"
	"strings"
	"unsafe"
)

// Dump renders any value, including unexported fields and everything reachable through pointers, into a
// canonical string. It names no private identifier of the code under test, so it survives refactors. It is
// used to deduplicate states only, never as an oracle. Values of package sync are skipped (lock words are
// not part of the logical state); funcs and channels are rendered by nil-ness only.
func Dump(v any) string {
	var b strings.Builder
	d := dumper{b: &b, seen: map[unsafe.Pointer]int{}}
	rv := reflect.ValueOf(v)
	d.dump(rv, 0)
	return b.String()
}

type dumper struct {
	b    *strings.Builder
	seen map[unsafe.Pointer]int
}

func (d *dumper) dump(v reflect.Value, depth int) {
	if depth > 200 {
		d.b.WriteString("<deep>")
		return
	}
	if !v.IsValid() {
		d.b.WriteString("<invalid>")
		return
	}
	t := v.Type()
	if t.PkgPath() == "sync" {
		d.b.WriteString("<sync>")
		return
	}
	switch v.Kind() {
	case reflect.Bool:
		fmt.Fprintf(d.b, "%t", v.Bool())
	case reflect.Int, reflect.Int8, reflect.Int16, reflect.Int32, reflect.Int64:
		fmt.Fprintf(d.b, "%d", v.Int())
	case reflect.Uint, reflect.Uint8, reflect.Uint16, reflect.Uint32, reflect.Uint64, reflect.Uintptr:
		fmt.Fprintf(d.b, "%d", v.Uint())
	case reflect.Float32, reflect.Float64:
		fmt.Fprintf(d.b, "%g", v.Float())
	case reflect.String:
		fmt.Fprintf(d.b, "%q", v.String())
	case reflect.Pointer:
		if v.IsNil() {
			d.b.WriteString("nil")
			return
		}
		p := v.UnsafePointer()
		if id, ok := d.seen[p]; ok {
			fmt.Fprintf(d.b, "<ref%d>", id)
			return
		}
		d.seen[p] = len(d.seen)
		d.b.WriteByte('&')
		d.dump(v.Elem(), depth+1)
	case reflect.Interface:
		if v.IsNil() {
			d.b.WriteString("nil")
			return
		}
		fmt.Fprintf(d.b, "(%s)", v.Elem().Type())
		d.dump(v.Elem(), depth+1)
	case reflect.Struct:
		d.b.WriteByte('{')
		for i := 0; i < v.NumField(); i++ {
			f := v.Field(i)
			if i > 0 {
				d.b.WriteByte(' ')
			}
			fmt.Fprintf(d.b, "%d:", i)
			d.dump(access(f), depth+1)
		}
		d.b.WriteByte('}')
	case reflect.Slice:
		if v.IsNil() {
			d.b.WriteString("nil[]")
			return
		}
		fallthrough
	case reflect.Array:
		d.b.WriteByte('[')
		for i := 0; i < v.Len(); i++ {
			if i > 0 {
				d.b.WriteByte(' ')
			}
			d.dump(access(v.Index(i)), depth+1)
		}
		d.b.WriteByte(']')
	case reflect.Map:
		if v.IsNil() {
			d.b.WriteString("nilmap")
			return
		}
		type kv struct{ k, v string }
		var kvs []kv
		it := v.MapRange()
		for it.Next() {
			var kb, vb strings.Builder
			(&dumper{b: &kb, seen: d.seen}).dump(access(it.Key()), depth+1)
			(&dumper{b: &vb, seen: d.seen}).dump(access(it.Value()), depth+1)
			kvs = append(kvs, kv{kb.String(), vb.String()})
		}
		sort.Slice(kvs, func(i, j int) bool { return kvs[i].k < kvs[j].k })
		d.b.WriteString("map[")
		for _, e := range kvs {
			d.b.WriteString(e.k)
			d.b.WriteByte(':')
			d.b.WriteString(e.v)
			d.b.WriteByte(' ')
		}
		d.b.WriteByte(']')
	case reflect.Func, reflect.Chan, reflect.UnsafePointer:
		if v.IsNil() {
			d.b.WriteString("nil")
		} else {
			d.b.WriteString("<" + v.Kind().String() + ">")
		}
	default:
		d.b.WriteString("<" + v.Kind().String() + ">")
	}
}

// access returns a readable version of a value obtained through an unexported field.
func access(v reflect.Value) reflect.Value {
	if v.CanInterface() {
		return v
	}
	if v.CanAddr() {
		return reflect.NewAt(v.Type(), unsafe.Pointer(v.UnsafeAddr())).Elem()
	}
	// not addressable (value reached through a non-pointer interface or map): copy into addressable storage
	c := reflect.New(v.Type()).Elem()
	// reflect refuses Set from unexported values; read through the kind-specific getters instead
	switch v.Kind() {
	case reflect.Bool:
		c.SetBool(v.Bool())
	case reflect.Int, reflect.Int8, reflect.Int16, reflect.Int32, reflect.Int64:
		c.SetInt(v.Int())
	case reflect.Uint, reflect.Uint8, reflect.Uint16, reflect.Uint32, reflect.Uint64, reflect.Uintptr:
		c.SetUint(v.Uint())
	case reflect.String:
		c.SetString(v.String())
	case reflect.Float32, reflect.Float64:
		c.SetFloat(v.Float())
	default:
		return v // kinds below are read with methods that work on unexported values (Len, Index, Field, ...)
	}
	return c
}
