package vlib

import (
	"crypto/sha1"
	"fmt"
	"os"
	"sync"
	"time"
)

// SeqSearch is explicit-state breadth-first search over operation sequences on real objects. A state is
// the shortest history that reaches it (live objects cannot be cloned: Run rebuilds a fresh object, replays
// the history and applies the last operation). States are deduplicated by Key (a canonical dump of the real
// object); the invariant is evaluated by Run on every transition, before deduplication.
// seqWatchdog bounds the replay of one history (they take milliseconds).
const seqWatchdog = 20 * time.Second

type SeqSearch struct {
	NOps     int
	MaxDepth int // 0: run to closure (no new state)
	// MaxTransitions > 0: do not start a level that would take the total beyond this budget
	MaxTransitions int
	// Run replays hist on a fresh object, checks the invariant for the state reached (and, if it wants, for
	// the last transition) and returns the canonical dump of the state. fail != nil reports a violation.
	Run func(hist []uint8) (key string, fail *Failure)
	// Allow (optional) restricts which operation may extend a history (e.g. a bound on re-insertions).
	Allow func(hist []uint8, op uint8) bool
	// OnFail is called (sequentially) for each failing transition.
	OnFail func(hist []uint8, f *Failure)
	What   string
}

type SeqResult struct {
	States      int
	Transitions int
	Depth       int
	Closed      bool // true if the search ended because no new state appeared
	PerLevel    []int
	Sample      [][]uint8 // a few histories, one per level
	Reps        [][]uint8 // the shortest history of every state found (at most 200 000)
}

func (s *SeqSearch) BFS(c *Ctx) SeqResult {
	type hkey [sha1.Size]byte
	seen := map[hkey]struct{}{}
	var res SeqResult
	rootKey, f := s.Run(nil)
	res.Transitions++
	if f != nil {
		s.OnFail(nil, f)
	}
	seen[sha1.Sum([]byte(rootKey))] = struct{}{}
	frontier := [][]uint8{{}}
	res.Reps = append(res.Reps, []uint8{})
	res.States = 1
	res.PerLevel = append(res.PerLevel, 1)
	for depth := 1; len(frontier) > 0; depth++ {
		if s.MaxDepth > 0 && depth > s.MaxDepth {
			c.Set(s.What+"_frontier_left_at_depth_bound", len(frontier))
			return res
		}
		n := int64(len(frontier)) * int64(s.NOps)
		if s.MaxTransitions > 0 && int64(res.Transitions)+n > int64(s.MaxTransitions) {
			c.Set(s.What+"_frontier_left_at_transition_budget", len(frontier))
			return res
		}
		type out struct {
			key  hkey
			fail *Failure
			done bool
			skip bool
		}
		results := make([]out, n)
		var mu sync.Mutex
		_ = mu
		c.ParRange(n, 16, s.What, func(i int64) {
			h := frontier[i/int64(s.NOps)]
			hist := make([]uint8, len(h)+1)
			copy(hist, h)
			hist[len(h)] = uint8(i % int64(s.NOps))
			if s.Allow != nil && !s.Allow(h, hist[len(h)]) {
				results[i] = out{skip: true, done: true}
				return
			}
			// (under a watchdog: a history whose replay never returns - a lock that is never released - is a failure)
			type ran struct {
				key string
				fl  *Failure
			}
			done := make(chan ran, 1)
			go func() {
				var key string
				fl := Guard(func() *Failure {
					var f2 *Failure
					key, f2 = s.Run(hist)
					return f2
				})
				done <- ran{key, fl}
			}()
			t := time.NewTimer(seqWatchdog)
			select {
			case r := <-done:
				t.Stop()
				results[i] = out{key: sha1.Sum([]byte(r.key)), fail: r.fl, done: true}
			case <-t.C:
				results[i] = out{fail: Failf("replaying the history did not finish within %v: a call into the library never returned (deadlock or endless loop)", seqWatchdog), done: true}
			}
		})
		var next [][]uint8
		incomplete := false
		for i := int64(0); i < n; i++ {
			r := results[i]
			if !r.done {
				incomplete = true
				continue
			}
			if r.skip {
				continue
			}
			res.Transitions++
			h := frontier[i/int64(s.NOps)]
			hist := append(append(make([]uint8, 0, len(h)+1), h...), uint8(i%int64(s.NOps)))
			if r.fail != nil {
				s.OnFail(hist, r.fail)
				continue // do not explore beyond a violating state
			}
			if _, ok := seen[r.key]; ok {
				continue
			}
			seen[r.key] = struct{}{}
			next = append(next, hist)
			if len(res.Reps) < 200000 {
				res.Reps = append(res.Reps, hist)
			}
		}
		res.States = len(seen)
		res.Depth = depth
		res.PerLevel = append(res.PerLevel, len(next))
		if os.Getenv("VERIF_PROGRESS") != "" {
			fmt.Fprintf(os.Stderr, "%s depth=%d new=%d states=%d transitions=%d\n", s.What, depth, len(next), len(seen), res.Transitions)
		}
		if len(next) > 0 && len(res.Sample) < 8 {
			res.Sample = append(res.Sample, next[len(next)/2])
		}
		if incomplete || c.Stopped() {
			return res
		}
		frontier = next
	}
	res.Closed = true
	return res
}
