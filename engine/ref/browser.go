package ref

import (
	"sort"
	"strings"
)

// An Intent is a cross-origin request a page asks a Fetch-compliant browser to make in "cors" mode.
type Intent struct {
	Origin      string   `json:"origin"`      // serialized origin of the page
	Method      string   `json:"method"`      // as written by the page (before normalisation)
	Headers     []string `json:"headers"`     // CORS-unsafe request-header names the page sets (any case)
	Credentials bool     `json:"credentials"` // credentials mode "include"
	PrivateNet  bool     `json:"private_net"` // target is in a more private network (PNA preflight)
}

// NormalizeMethod is Fetch's method normalisation: byte-uppercase iff a byte-case-insensitive match for
// DELETE, GET, HEAD, OPTIONS, POST or PUT.
func NormalizeMethod(m string) string {
	u := strings.ToUpper(m)
	switch u {
	case "DELETE", "GET", "HEAD", "OPTIONS", "POST", "PUT":
		return u
	}
	return m
}

func IsSafelistedMethod(m string) bool { return m == "GET" || m == "HEAD" || m == "POST" }

// UnsafeHeaderValue renders the value of Access-Control-Request-Headers as a browser does: names
// byte-lowercased, sorted, unique, joined by ",". "" when there is none.
func UnsafeHeaderValue(names []string) string {
	var l []string
	for _, n := range names {
		l = append(l, strings.ToLower(n))
	}
	return strings.Join(SortedUnique(l), ",")
}

// A Wire is what the browser puts on the wire for one request.
type Wire struct {
	Method string
	Hdr    map[string][]string
}

// A Reply is what the browser reads back.
type Reply struct {
	Status int
	Hdr    map[string][]string // canonical keys
}

// NeedsPreflight: method not CORS-safelisted, or any CORS-unsafe request-header name, or a private-network
// target (PNA forces a preflight).
func NeedsPreflight(in Intent) bool {
	return !IsSafelistedMethod(NormalizeMethod(in.Method)) || len(in.Headers) > 0 || in.PrivateNet
}

// PreflightWire builds the CORS-preflight request (Fetch "CORS-preflight fetch", steps 1-6; PNA adds ACRPN).
func PreflightWire(in Intent) Wire {
	h := map[string][]string{
		"Origin":                        {in.Origin},
		"Access-Control-Request-Method": {NormalizeMethod(in.Method)},
	}
	if v := UnsafeHeaderValue(in.Headers); v != "" {
		h["Access-Control-Request-Headers"] = []string{v}
	}
	if in.PrivateNet {
		h["Access-Control-Request-Private-Network"] = []string{"true"}
	}
	return Wire{Method: "OPTIONS", Hdr: h}
}

// ActualWire builds the actual request (Origin is appended because the request is cross-origin, cors mode).
func ActualWire(in Intent) Wire {
	h := map[string][]string{"Origin": {in.Origin}}
	for _, n := range in.Headers {
		h[canonicalKey(n)] = []string{"v"}
	}
	if in.Credentials {
		h["Cookie"] = []string{"sid=1"}
	}
	return Wire{Method: NormalizeMethod(in.Method), Hdr: h}
}

func canonicalKey(s string) string {
	b := []byte(strings.ToLower(s))
	up := true
	for i, c := range b {
		if up && c >= 'a' && c <= 'z' {
			b[i] = c - 32
		}
		up = c == '-'
	}
	return string(b)
}

// IsTchar reports whether c is a token character (RFC 9110).
func IsTchar(c byte) bool { return isTchar(c) }

func isTchar(c byte) bool {
	switch {
	case c >= 'a' && c <= 'z', c >= 'A' && c <= 'Z', c >= '0' && c <= '9':
		return true
	}
	return strings.IndexByte("!#$%&'*+-.^_`|~", c) >= 0
}

// ExtractList is Fetch's "extract header list values" for a header whose ABNF is #token
// (Access-Control-Allow-Methods / -Headers): nil,true when absent; failure (ok=false) when any element is not
// a token; OWS around elements and empty elements are legal per RFC 9110 list syntax.
func ExtractList(h map[string][]string, name string) (vals []string, present bool, ok bool) {
	lines, found := h[name]
	if !found || len(lines) == 0 {
		return nil, false, true
	}
	for _, line := range lines {
		for _, el := range strings.Split(line, ",") {
			el = strings.Trim(el, " \t")
			if el == "" {
				continue
			}
			for i := 0; i < len(el); i++ {
				if !isTchar(el[i]) {
					return nil, true, false
				}
			}
			vals = append(vals, el)
		}
	}
	return vals, true, true
}

// single returns the value of a header the browser treats as a single value: multiple field lines are
// combined with ", " (Fetch "get"), which never equals a serialized origin, "*" or "true".
func single(h map[string][]string, name string) (string, bool) {
	v, ok := h[name]
	if !ok || len(v) == 0 {
		return "", false
	}
	return strings.Join(v, ", "), true
}

// CORSCheck is Fetch's "CORS check".
func CORSCheck(in Intent, r Reply) bool {
	origin, ok := single(r.Hdr, "Access-Control-Allow-Origin")
	if !ok {
		return false
	}
	if !in.Credentials && origin == "*" {
		return true
	}
	if origin != in.Origin {
		return false
	}
	if !in.Credentials {
		return true
	}
	cred, _ := single(r.Hdr, "Access-Control-Allow-Credentials")
	return cred == "true"
}

func containsFold(list []string, s string) bool {
	for _, l := range list {
		if strings.EqualFold(l, s) {
			return true
		}
	}
	return false
}

func contains(list []string, s string) bool {
	for _, l := range list {
		if l == s {
			return true
		}
	}
	return false
}

// PreflightOK is Fetch "CORS-preflight fetch" step 7 plus PNA's Access-Control-Allow-Private-Network check.
// reason explains a failure.
func PreflightOK(in Intent, r Reply) (bool, string) {
	if !CORSCheck(in, r) {
		return false, "CORS check failed on the preflight response"
	}
	if r.Status < 200 || r.Status > 299 {
		return false, "preflight status is not an ok status"
	}
	if in.PrivateNet {
		v, _ := single(r.Hdr, "Access-Control-Allow-Private-Network")
		if v != "true" {
			return false, "Access-Control-Allow-Private-Network is not true"
		}
	}
	methods, _, ok1 := ExtractList(r.Hdr, "Access-Control-Allow-Methods")
	names, _, ok2 := ExtractList(r.Hdr, "Access-Control-Allow-Headers")
	if !ok1 || !ok2 {
		return false, "Access-Control-Allow-Methods/-Headers failed to parse"
	}
	m := NormalizeMethod(in.Method)
	if !contains(methods, m) && !IsSafelistedMethod(m) && (in.Credentials || !contains(methods, "*")) {
		return false, "method not allowed by Access-Control-Allow-Methods"
	}
	for _, n := range in.Headers {
		if strings.EqualFold(n, "authorization") && !containsFold(names, n) {
			return false, "authorization (non-wildcard request-header name) not listed in Access-Control-Allow-Headers"
		}
	}
	for _, n := range in.Headers {
		if !containsFold(names, n) && (in.Credentials || !contains(names, "*")) {
			return false, "header " + n + " not allowed by Access-Control-Allow-Headers"
		}
	}
	return true, ""
}

// A Policy is the meaning of a configuration, in the words of the C02 statement.
type Policy struct {
	Origins        []string // patterns, possibly "*"
	Credentialed   bool
	Methods        []string // as listed, possibly "*"
	RequestHeaders []string // as listed, possibly "*"
	PNA            bool
	PNANoCORS      bool
}

// Permits is the C02 sentence.
func Permits(p Policy, in Intent) bool {
	if p.PNANoCORS {
		return false
	}
	if !contains(p.Origins, "*") && !DenotedByAny(p.Origins, in.Origin) {
		return false
	}
	if in.Credentials && !p.Credentialed {
		return false
	}
	m := NormalizeMethod(in.Method)
	if !IsSafelistedMethod(m) && !contains(p.Methods, "*") {
		ok := false
		for _, l := range p.Methods {
			if NormalizeMethod(l) == m {
				ok = true
			}
		}
		if !ok {
			return false
		}
	}
	star := contains(p.RequestHeaders, "*")
	for _, n := range in.Headers {
		if containsFold(p.RequestHeaders, n) {
			continue
		}
		if !star {
			return false
		}
		if strings.EqualFold(n, "authorization") && !p.Credentialed {
			return false
		}
	}
	if in.PrivateNet && !p.PNA {
		return false
	}
	return true
}

// SortedCopy returns a sorted copy.
func SortedCopy(s []string) []string {
	c := append([]string(nil), s...)
	sort.Strings(c)
	return c
}
