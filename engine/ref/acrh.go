package ref

import (
	"sort"
	"strings"
)

// ACRH is the C14 sentence: the field lines, read in order as comma-separated lists, are approved iff every
// element carries at most one byte of optional whitespace (SP / HTAB) per side, at most 16 elements are
// empty, and the non-empty elements are allowed names in strictly increasing lexicographic order.
// allowed holds the byte-lower-case allowed names (any order).
func ACRH(allowed []string, lines []string) bool {
	const maxEmpty = 16
	isOWS := func(b byte) bool { return b == ' ' || b == '\t' }
	member := map[string]bool{}
	for _, a := range allowed {
		member[a] = true
	}
	empty := 0
	last := ""
	haveLast := false
	for _, line := range lines {
		for _, el := range strings.Split(line, ",") {
			lead := 0
			for lead < len(el) && isOWS(el[lead]) {
				lead++
			}
			if lead == len(el) {
				// nothing but whitespace: one byte may sit on each side of the (empty) element
				if len(el) > 2 {
					return false
				}
				empty++
				if empty > maxEmpty {
					return false
				}
				continue
			}
			trail := 0
			for isOWS(el[len(el)-1-trail]) {
				trail++
			}
			if lead > 1 || trail > 1 {
				return false
			}
			name := el[lead : len(el)-trail]
			if !member[name] {
				return false
			}
			if haveLast && !(last < name) {
				return false
			}
			last, haveLast = name, true
		}
	}
	return true
}

// SortedUnique returns the sorted set of the given names.
func SortedUnique(names []string) []string {
	m := map[string]bool{}
	for _, n := range names {
		m[n] = true
	}
	out := make([]string, 0, len(m))
	for n := range m {
		out = append(out, n)
	}
	sort.Strings(out)
	return out
}
