// Package ref holds the reference models: deliberately boring transcriptions of the property statements and
// of the package documentation, written independently of the code under test.
package ref

import "strings"

// SplitOrigin splits the text of a pattern or of a serialized origin into scheme, host (brackets included)
// and port text ("" when absent). ok is false when there is no "://".
func SplitOrigin(s string) (scheme, host, port string, ok bool) {
	i := strings.Index(s, "://")
	if i < 0 {
		return "", "", "", false
	}
	scheme, rest := s[:i], s[i+3:]
	if strings.HasPrefix(rest, "[") {
		j := strings.IndexByte(rest, ']')
		if j < 0 {
			return scheme, rest, "", true
		}
		host, rest = rest[:j+1], rest[j+1:]
		if strings.HasPrefix(rest, ":") {
			port = rest[1:]
		}
		return scheme, host, port, true
	}
	if j := strings.LastIndexByte(rest, ':'); j >= 0 {
		return scheme, rest[:j], rest[j+1:], true
	}
	return scheme, rest, "", true
}

// Denotes is the C01 sentence: same scheme; host byte-equal to the pattern's host or, for a `*.` pattern,
// ending in "."+base with at least one more non-empty label in front; port equal (absent matches only
// absent) or arbitrary for a `:*` pattern. Both arguments are texts; origin must be a serialized tuple
// origin.
func Denotes(pattern, origin string) bool {
	ps, ph, pp, ok1 := SplitOrigin(pattern)
	os, oh, op, ok2 := SplitOrigin(origin)
	if !ok1 || !ok2 {
		return false
	}
	if ps != os {
		return false
	}
	if pp != "*" && pp != op {
		return false
	}
	if strings.HasPrefix(ph, "*.") {
		base := ph[2:]
		if !strings.HasSuffix(oh, "."+base) {
			return false
		}
		front := oh[:len(oh)-len(base)-1]
		if front == "" || strings.HasSuffix(front, ".") || strings.HasPrefix(front, ".") {
			return false
		}
		return true
	}
	return ph == oh
}

// DenotedByAny reports whether some pattern of the list denotes origin.
func DenotedByAny(patterns []string, origin string) bool {
	for _, p := range patterns {
		if p != "*" && Denotes(p, origin) {
			return true
		}
	}
	return false
}

// WellFormedOrigin recognises serialized tuple origins as browsers emit them, restricted to what this
// library's documentation covers: lower-case scheme, host = LDH/Punycode domain (optionally with trailing
// dot), dotted quad or bracketed IPv6 text, optional port 1-65535 without leading zeros.
func WellFormedOrigin(s string) bool {
	scheme, host, port, ok := SplitOrigin(s)
	if !ok || scheme == "" || host == "" {
		return false
	}
	// documented domain of the library: schemes of at most 64 bytes, domain names of at most 253 bytes (not
	// counting a trailing dot); longer ones are a grey zone (with `*` configured the preflight path still
	// insists on a parseable origin) and are not judged
	if len(scheme) > 64 || len(strings.TrimSuffix(host, ".")) > 253 {
		return false
	}
	for i := 0; i < len(scheme); i++ {
		c := scheme[i]
		switch {
		case c >= 'a' && c <= 'z':
		case i > 0 && (c >= '0' && c <= '9' || c == '+' || c == '-' || c == '.'):
		default:
			return false
		}
	}
	if strings.Contains(s[len(scheme)+3:], "/") {
		return false
	}
	if strings.HasPrefix(host, "[") {
		if !strings.HasSuffix(host, "]") || !strings.Contains(host, ":") {
			return false
		}
		for _, c := range host[1 : len(host)-1] {
			if !(c >= '0' && c <= '9' || c >= 'a' && c <= 'f' || c == ':' || c == '.') {
				return false
			}
		}
	} else {
		h := strings.TrimSuffix(host, ".")
		if h == "" {
			return false
		}
		for _, l := range strings.Split(h, ".") {
			if l == "" || len(l) > 63 {
				return false
			}
			for _, c := range l {
				if !(c >= 'a' && c <= 'z' || c >= '0' && c <= '9' || c == '-') {
					return false
				}
			}
		}
	}
	if strings.Contains(s[len(scheme)+3+len(host):], ":") {
		if port == "" || port[0] == '0' || len(port) > 5 {
			return false
		}
		n := 0
		for _, c := range port {
			if c < '0' || c > '9' {
				return false
			}
			n = n*10 + int(c-'0')
		}
		if n > 65535 {
			return false
		}
	}
	return true
}
