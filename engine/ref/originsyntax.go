package ref

import "strings"

// LenientSerializedOrigin recognises everything that could pass for a serialized tuple origin: lower-case
// scheme, "://", host made of lower-case letters, digits, '-', '_' and single dots (trailing dot allowed) or
// a bracketed literal containing ':' with hex digits / ':' / '.' only, optional ":" + port 1-65535 without
// leading zeros; nothing else (no userinfo, path, query, fragment, whitespace, upper case, non-ASCII).
// It is deliberately more lenient than WellFormedOrigin ('_' in labels, any label length): it is used where
// the oracle must not object to grey-zone hosts.
func LenientSerializedOrigin(s string) bool {
	i := strings.Index(s, "://")
	if i <= 0 {
		return false
	}
	scheme, rest := s[:i], s[i+3:]
	for j := 0; j < len(scheme); j++ {
		c := scheme[j]
		switch {
		case c >= 'a' && c <= 'z':
		case j > 0 && (c >= '0' && c <= '9' || c == '+' || c == '-' || c == '.' || c == '_'):
		default:
			return false
		}
	}
	var host, port string
	hasPort := false
	if strings.HasPrefix(rest, "[") {
		j := strings.IndexByte(rest, ']')
		if j < 0 {
			return false
		}
		host, rest = rest[:j+1], rest[j+1:]
		inner := host[1 : len(host)-1]
		if !strings.Contains(inner, ":") {
			return false
		}
		for k := 0; k < len(inner); k++ {
			c := inner[k]
			if !(c >= '0' && c <= '9' || c >= 'a' && c <= 'f' || c == ':' || c == '.') {
				return false
			}
		}
		if rest != "" {
			if rest[0] != ':' {
				return false
			}
			hasPort, port = true, rest[1:]
		}
	} else {
		if j := strings.IndexByte(rest, ':'); j >= 0 {
			host, port, hasPort = rest[:j], rest[j+1:], true
		} else {
			host = rest
		}
		h := strings.TrimSuffix(host, ".")
		if h == "" {
			return false
		}
		for _, l := range strings.Split(h, ".") {
			if l == "" {
				return false
			}
			for k := 0; k < len(l); k++ {
				c := l[k]
				if !(c >= 'a' && c <= 'z' || c >= '0' && c <= '9' || c == '-' || c == '_') {
					return false
				}
			}
		}
	}
	if hasPort {
		if port == "" || port[0] == '0' || len(port) > 5 {
			return false
		}
		n := 0
		for k := 0; k < len(port); k++ {
			if port[k] < '0' || port[k] > '9' {
				return false
			}
			n = n*10 + int(port[k]-'0')
		}
		if n > 65535 {
			return false
		}
	}
	return true
}

// BracketedHostWithoutColon reports whether s has the shape scheme://[...]... with no ':' inside the brackets
// (a bracketed host that is not an IPv6 literal).
func BracketedHostWithoutColon(s string) bool {
	i := strings.Index(s, "://[")
	if i < 0 {
		return false
	}
	rest := s[i+4:]
	j := strings.IndexByte(rest, ']')
	if j < 0 {
		return false
	}
	return !strings.Contains(rest[:j], ":")
}
