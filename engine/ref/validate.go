package ref

import (
	"math"
	"strings"
)

// Reference validation over labelled atoms: every atom carries, by construction, the class the
// documentation of Config / ExtraConfig puts it in. Validate returns the violations the documentation
// promises for a configuration assembled from such atoms.

type OriginAtom struct {
	Value     string
	Malformed bool // invalid or prohibited as a pattern (null, file, Unicode, userinfo, path, bad port, ...)
	Star      bool // "*"
	Insecure  bool // scheme not https and host neither localhost nor a loopback IP
	PSL       bool // *.<public suffix>
}

type NameAtom struct {
	Value  string
	Star   bool
	Reason string // "" valid; "invalid" | "forbidden" | "prohibited"
}

// Want is one expected violation.
type Want struct {
	Type   string // name of the cfgerrors type
	Value  string // offending value as supplied ("" when the type has none)
	Reason string // Reason field; for origin patterns "invalid|prohibited" means either
	Kind   string // UnacceptableHeaderNameError.Type: request | response
	Int    int    // Value of the two integer errors
}

type Switches struct {
	Credentialed, PNA, PNANoCORS, TolInsecure, TolPSL bool
}

type AtomConfig struct {
	Origins         []OriginAtom
	Methods         []NameAtom
	RequestHeaders  []NameAtom
	ResponseHeaders []NameAtom
	MaxAge          int
	Status          int
	Switches
}

func Validate(c AtomConfig) []Want {
	var w []Want
	if c.Status != 0 && (c.Status < 200 || c.Status > 299) {
		w = append(w, Want{Type: "PreflightSuccessStatusOutOfBoundsError", Int: c.Status})
	}
	if c.PNA && c.PNANoCORS {
		w = append(w, Want{Type: "IncompatiblePrivateNetworkAccessModesError"})
	}
	pna := c.PNA || c.PNANoCORS
	if len(c.Origins) == 0 {
		w = append(w, Want{Type: "UnacceptableOriginPatternError", Reason: "missing"})
	}
	for _, o := range c.Origins {
		switch {
		case o.Star:
			if c.Credentialed {
				w = append(w, Want{Type: "IncompatibleOriginPatternError", Value: "*", Reason: "credentialed"})
			}
			if pna {
				w = append(w, Want{Type: "IncompatibleOriginPatternError", Value: "*", Reason: "pna"})
			}
		case o.Malformed:
			w = append(w, Want{Type: "UnacceptableOriginPatternError", Value: o.Value, Reason: "invalid|prohibited"})
		default:
			if o.Insecure && !c.TolInsecure {
				if c.Credentialed {
					w = append(w, Want{Type: "IncompatibleOriginPatternError", Value: o.Value, Reason: "credentialed"})
				}
				if pna {
					w = append(w, Want{Type: "IncompatibleOriginPatternError", Value: o.Value, Reason: "pna"})
				}
			}
			if o.PSL && !c.TolPSL {
				w = append(w, Want{Type: "IncompatibleOriginPatternError", Value: o.Value, Reason: "psl"})
			}
		}
	}
	for _, m := range c.Methods {
		if !m.Star && m.Reason != "" {
			w = append(w, Want{Type: "UnacceptableMethodError", Value: m.Value, Reason: m.Reason})
		}
	}
	for _, h := range c.RequestHeaders {
		if !h.Star && h.Reason != "" {
			w = append(w, Want{Type: "UnacceptableHeaderNameError", Value: h.Value, Reason: h.Reason, Kind: "request"})
		}
	}
	if c.MaxAge < -1 || c.MaxAge > 86400 {
		w = append(w, Want{Type: "MaxAgeOutOfBoundsError", Int: c.MaxAge})
	}
	for _, h := range c.ResponseHeaders {
		switch {
		case h.Star:
			if c.Credentialed {
				w = append(w, Want{Type: "IncompatibleWildcardResponseHeaderNameError"})
			}
		case h.Reason != "":
			w = append(w, Want{Type: "UnacceptableHeaderNameError", Value: h.Value, Reason: h.Reason, Kind: "response"})
		}
	}
	return w
}

var (
	l63   = strings.Repeat("a", 63)
	l64   = strings.Repeat("a", 64)
	h253  = l63 + "." + strings.Repeat("b", 63) + "." + strings.Repeat("c", 63) + "." + strings.Repeat("d", 61)
	h254  = h253 + "e"
	b251  = l63 + "." + strings.Repeat("b", 63) + "." + strings.Repeat("c", 63) + "." + strings.Repeat("d", 59)
	b252  = b251 + "e"
	sch64 = "s" + strings.Repeat("x", 63)
	sch65 = sch64 + "x"
)

// OriginAtoms: valid atoms first (simplest first), then the malformed ones.
func OriginAtoms() []OriginAtom {
	valid := []OriginAtom{
		{Value: "https://example.com"},
		{Value: "https://*.example.com"},
		{Value: "https://example.com:*"},
		{Value: "https://example.com:8443"},
		{Value: "*", Star: true},
		{Value: "http://example.com", Insecure: true},
		{Value: "http://*.example.com:*", Insecure: true},
		{Value: "http://localhost"},
		{Value: "http://localhost:8080"},
		{Value: "http://127.0.0.1"},
		{Value: "http://127.0.0.1:*"},
		{Value: "http://[::1]:9090"},
		{Value: "http://1.2.3.4", Insecure: true},
		{Value: "http://[2001:db8::1]", Insecure: true},
		{Value: "connector://localhost"},
		{Value: "connector://example.com", Insecure: true},
		{Value: "https://*.com", PSL: true},
		{Value: "https://*.com.", PSL: true},
		{Value: "https://*.co.uk:*", PSL: true},
		{Value: "https://*.github.io", PSL: true},
		{Value: "http://*.com", PSL: true, Insecure: true},
		{Value: "https://www.xn--xample-9ua.com"},
		{Value: "https://example.com."},
		{Value: "https://" + h253},
		{Value: "https://*." + b251},
		{Value: sch64 + "://example.com:65535", Insecure: true},
	}
	bad := []string{
		"null", "file:///somepath", "file://x", "https://www.résumé.com", "https://Example.com", "HTTPS://example.com",
		"https://user@example.com", "https://user:pw@example.com", "https://example.com/", "https://example.com/path", "https://example.com?q", "https://example.com#f",
		" https://example.com", "https://example.com ", "https://example.com:443", "http://example.com:80", "https://example.com:", "https://example.com:0",
		"https://example.com:65536", "https://example.com:99999", "https://example.com:100000", "https://example.com:080", "https://example.com:*0", "https://example.com:**",
		"http://[0:0:0:0:0:0:0:0001]:9090", "http://[0000:0000:0000:0000:0000:0000:0000:0001]:9090", "http://[::FFFF]", "http://[::ffff:1.2.3.4]", "http://[fe80::1%eth0]", "http://[::1", "http://::1",
		"http://0xFF000000", "http://1.2.3", "http://01.2.3.4", "http://256.1.1.1",
		"https://exa*mple.com", "https://*example.com", "https://*.*.example.com", "https://example.*.com", "https://example.com.*", "http://*.127.0.0.1", "http://*.[::1]",
		"https://" + h254, "https://" + l64 + ".com", "https://*." + b252, sch65 + "://example.com", "https://a..b", "https://.example.com", "https://",
		"", "\x00", "example.com", "https:example.com", "https:/example.com", "://example.com", "https//example.com", "1https://example.com", "https://exa mple.com", "https://-example.com", "https://example-.com",
	}
	for _, b := range bad {
		valid = append(valid, OriginAtom{Value: b, Malformed: true})
	}
	// near misses of the values the security rules single out (appended last: indices above stay put)
	valid = append(valid,
		OriginAtom{Value: "http://notlocalhost", Insecure: true},
		OriginAtom{Value: "http://localhosts", Insecure: true},
		OriginAtom{Value: "http://foo.localhost:*", Insecure: true},
		OriginAtom{Value: "http://localhost.example.com", Insecure: true},
		OriginAtom{Value: "ws://evil-localhost:9090", Insecure: true},
		OriginAtom{Value: "https://notlocalhost"},
		OriginAtom{Value: "ws://localhost"},
		OriginAtom{Value: "httpss://example.com", Insecure: true},
		OriginAtom{Value: "http://127.255.255.254:*"},
		OriginAtom{Value: "http://128.0.0.1", Insecure: true},
		OriginAtom{Value: "http://126.255.255.255", Insecure: true},
		OriginAtom{Value: "http://[::2]", Insecure: true},
		OriginAtom{Value: "http://[::1:1]", Insecure: true},
		OriginAtom{Value: "http://example.com:443", Insecure: true},
		OriginAtom{Value: "https://example.com:80"},
		OriginAtom{Value: "https://*.example.co.uk"},
		OriginAtom{Value: "https://*.uk", PSL: true},
		OriginAtom{Value: "https://*.blogspot.com:8443", PSL: true},
		OriginAtom{Value: "http://0xff000000", Malformed: true},
		OriginAtom{Value: "http://127.0.0.0x1", Malformed: true},
		OriginAtom{Value: "http://0x7f.0.0.1:8080", Malformed: true},
		OriginAtom{Value: "http://1.2.3.0x4:*", Malformed: true},
		OriginAtom{Value: "http://0x7f000001", Malformed: true},
		OriginAtom{Value: "http://127.1", Malformed: true},
		// a public suffix nested below a domain that is not one (s3.amazonaws.com, via the list's private section)
		OriginAtom{Value: "https://*.amazonaws.com"},
		OriginAtom{Value: "https://*.s3.amazonaws.com", PSL: true},
		OriginAtom{Value: "http://*.s3.amazonaws.com:*", PSL: true, Insecure: true},
		OriginAtom{Value: "https://*.fastly.net"},
		OriginAtom{Value: "https://*.global.ssl.fastly.net", PSL: true},
		// discrete hosts that are themselves public suffixes are ordinary valid patterns
		OriginAtom{Value: "https://github.io"},
		OriginAtom{Value: "https://co.uk:8443"},
		OriginAtom{Value: "https://s3.amazonaws.com"},
		// A-labels that are not valid IDNA (they violate the Bidi rule once decoded): no valid host
		OriginAtom{Value: "https://xn--a-zhc.com", Malformed: true},
		OriginAtom{Value: "https://1a.xn--4dbcd.com", Malformed: true},
		OriginAtom{Value: "https://*.xn--a-0hc.com:*", Malformed: true},
		// ports that a lenient number parser would take (sign, radix prefix, exponent, blanks, other digits)
		OriginAtom{Value: "https://example.com:+8443", Malformed: true},
		OriginAtom{Value: "https://*.example.com:+9090", Malformed: true},
		OriginAtom{Value: "https://example.com:+0", Malformed: true},
		OriginAtom{Value: "https://example.com:-1", Malformed: true},
		OriginAtom{Value: "https://example.com:-0", Malformed: true},
		OriginAtom{Value: "https://example.com:0x50", Malformed: true},
		OriginAtom{Value: "https://example.com:1e3", Malformed: true},
		OriginAtom{Value: "https://example.com: 8443", Malformed: true},
		OriginAtom{Value: "https://example.com:8443 ", Malformed: true},
		OriginAtom{Value: "https://example.com:8_443", Malformed: true},
		OriginAtom{Value: "https://example.com:٨٤٤٣", Malformed: true},
		OriginAtom{Value: "https://example.com:８４４３", Malformed: true},
		OriginAtom{Value: "https://example.com:+65535", Malformed: true},
		OriginAtom{Value: "https://example.com:4294967739", Malformed: true}, // 2^32 + 443
		OriginAtom{Value: "https://example.com:65979", Malformed: true},      // 2^16 + 443
		OriginAtom{Value: "https://example.com:00008443", Malformed: true},
	)
	return valid
}

func MethodAtoms() []NameAtom {
	return []NameAtom{
		{Value: "QUERY"}, {Value: "PATCH"}, {Value: "put"}, {Value: "GET"}, {Value: "*", Star: true}, {Value: "Delete"}, {Value: "patch"},
		{Value: "CONNECT", Reason: "forbidden"}, {Value: "connect", Reason: "forbidden"}, {Value: "Trace", Reason: "forbidden"}, {Value: "TRACK", Reason: "forbidden"},
		{Value: "bad method", Reason: "invalid"}, {Value: "", Reason: "invalid"}, {Value: "(", Reason: "invalid"}, {Value: "résumé", Reason: "invalid"},
	}
}

func RequestHeaderAtoms() []NameAtom {
	return []NameAtom{
		{Value: "X-Foo"}, {Value: "Content-Type"}, {Value: "*", Star: true}, {Value: "Authorization"}, {Value: "AUTHORIZATION"}, {Value: "x-foo"},
		{Value: "Cookie", Reason: "forbidden"}, {Value: "HOST", Reason: "forbidden"}, {Value: "Sec-Fetch-Mode", Reason: "forbidden"}, {Value: "proxy-x", Reason: "forbidden"},
		{Value: "Origin", Reason: "forbidden"}, {Value: "Access-Control-Request-Method", Reason: "forbidden"}, {Value: "Content-Length", Reason: "forbidden"},
		{Value: "Access-Control-Allow-Origin", Reason: "prohibited"}, {Value: "access-control-max-age", Reason: "prohibited"}, {Value: "Access-Control-Expose-Headers", Reason: "prohibited"},
		{Value: "bad name", Reason: "invalid"}, {Value: "", Reason: "invalid"}, {Value: "résumé", Reason: "invalid"}, {Value: "a:b", Reason: "invalid"},
	}
}

func ResponseHeaderAtoms() []NameAtom {
	return []NameAtom{
		{Value: "X-Response-Time"}, {Value: "x-q"}, {Value: "*", Star: true}, {Value: "Content-Type"}, {Value: "CACHE-CONTROL"},
		{Value: "Set-Cookie", Reason: "forbidden"}, {Value: "set-cookie2", Reason: "forbidden"},
		{Value: "Origin", Reason: "prohibited"}, {Value: "Access-Control-Request-Method", Reason: "prohibited"}, {Value: "access-control-request-headers", Reason: "prohibited"}, {Value: "Access-Control-Request-Private-Network", Reason: "prohibited"},
		{Value: "bad name", Reason: "invalid"}, {Value: "", Reason: "invalid"}, {Value: "a,b", Reason: "invalid"},
	}
}

func MaxAges() []int { return []int{0, 1, -1, 86400, -2, 86401, math.MinInt, math.MaxInt} }
func Statuses() []int {
	return []int{0, 200, 204, 299, 199, 300, 1, -1, math.MinInt, math.MaxInt, 1<<32 + 204, 256 + 204}
}

// ---- tables: every documented name in several spellings, near misses, and every byte value ----

func spellings(s string) []string {
	lo := strings.ToLower(s)
	title := []byte(lo)
	up := true
	for i, c := range title {
		if up && c >= 'a' && c <= 'z' {
			title[i] = c - 32
		}
		up = c == '-'
	}
	alt := []byte(lo)
	for i, c := range alt {
		if i%2 == 1 && c >= 'a' && c <= 'z' {
			alt[i] = c - 32
		}
	}
	out := []string{lo}
	for _, v := range []string{strings.ToUpper(lo), string(title), string(alt)} {
		dup := false
		for _, o := range out {
			if o == v {
				dup = true
			}
		}
		if !dup {
			out = append(out, v)
		}
	}
	return out
}

func byteNames(prefix, suffix string) []NameAtom {
	// (names that begin with a token character sorting before `*`: ! # $ % & ')
	out := []NameAtom{{Value: "$Trace-Id"}, {Value: "!x-foo"}, {Value: "#h"}, {Value: "%p"}, {Value: "&a"}, {Value: "'q"}, {Value: "+z"}}
	for b := 0; b < 256; b++ {
		a := NameAtom{Value: prefix + string([]byte{byte(b)}) + suffix}
		if !isTchar(byte(b)) {
			a.Reason = "invalid"
		}
		out = append(out, a)
	}
	return out
}

// MethodTable: the forbidden methods of the Fetch standard in every spelling, near misses of them, the
// methods browsers know, and every byte value inside a method name (valid iff token character).
func MethodTable() []NameAtom {
	var out []NameAtom
	for _, m := range []string{"connect", "trace", "track"} {
		for _, s := range spellings(m) {
			out = append(out, NameAtom{Value: s, Reason: "forbidden"})
		}
	}
	for _, m := range []string{"CONNECTS", "CONNEC", "TRAC", "TRACER", "XTRACK", "TRACKS", "TRACE-", "-TRACE", "C", "HEAD", "POST", "OPTIONS", "options", "PROPFIND", "M-SEARCH", "get", "Post"} {
		out = append(out, NameAtom{Value: m})
	}
	for _, m := range []string{"po\u017ft", "opt\u0131ons", "option\u017f", "\u212a", "connec\u0074\u0307", "tra\u212ae"} {
		out = append(out, NameAtom{Value: m, Reason: "invalid"})
	}
	return append(out, byteNames("A", "Z")...)
}

// RequestHeaderTable: every forbidden request-header name of the Fetch standard and every documented
// prohibited name in every spelling, the two forbidden prefixes, near misses, and every byte value.
func RequestHeaderTable() []NameAtom {
	var out []NameAtom
	for _, n := range []string{"accept-charset", "accept-encoding", "access-control-request-headers", "access-control-request-method", "connection", "content-length", "cookie", "cookie2", "date", "dnt", "expect", "host", "keep-alive", "origin", "referer", "set-cookie", "te", "trailer", "transfer-encoding", "upgrade", "via",
		"proxy-", "proxy-authorization", "proxy-x", "sec-", "sec-fetch-site", "sec-x"} {
		for _, s := range spellings(n) {
			out = append(out, NameAtom{Value: s, Reason: "forbidden"})
		}
	}
	for _, n := range []string{"access-control-allow-credentials", "access-control-allow-headers", "access-control-allow-methods", "access-control-allow-origin", "access-control-allow-private-network", "access-control-expose-headers", "access-control-max-age"} {
		for _, s := range spellings(n) {
			out = append(out, NameAtom{Value: s, Reason: "prohibited"})
		}
	}
	// names that matter on the response side, as request-header names (all plain valid there, except the prohibited ones)
	for _, n := range []string{"set-cookie2", "Set-Cookie2", "cache-control", "content-language", "expires", "last-modified", "pragma", "etag", "link", "location", "vary", "www-authenticate", "x-request-id"} {
		out = append(out, NameAtom{Value: n})
	}
	for _, n := range []string{"proxy", "prox-y", "xproxy-a", "sec", "secx-a", "xsec-a", "cookie3", "cooki", "dn", "dnt2", "hosts", "hos", "vias", "vi", "t", "tee", "dates", "expects", "origins", "referrer", "trailers", "upgrades", "accept", "accept-language", "content-language",
		"access-control-allow", "access-control-allow-origins", "access-control-request", "x-access-control-allow-origin", "if-match", "range", "x-http-method-override-2"} {
		out = append(out, NameAtom{Value: n}, NameAtom{Value: strings.ToUpper(n)})
	}
	// invalid names that also carry a forbidden prefix: one violation (invalid), not two
	for _, n := range []string{"Sec-Fetch Mode", "sec-foo:bar", "Proxy-Authoriz@tion", "PROXY-\xe9", "sec-", "proxy- "} {
		r := "invalid"
		if n == "sec-" {
			r = "forbidden"
		}
		out = append(out, NameAtom{Value: n, Reason: r})
	}
	for _, n := range []string{"x-\u017f", "author\u0131zation", "coo\u212aie", "\u017fec-x", "ho\u017ft",
		// runes that Unicode lower-casing maps to ASCII letters (Kelvin sign, dotted capital I): not token characters
		"X-Api-\u212aey", "x-api-\u212aey", "\u212a", "Author\u0130zation", "X-\u0130d", "x-tra\u212a"} {
		out = append(out, NameAtom{Value: n, Reason: "invalid"})
	}
	return append(out, byteNames("x-", "-y")...)
}

// ResponseHeaderTable: the forbidden response-header names, the documented prohibited names, the
// CORS-safelisted response-header names (tolerated), near misses, and every byte value.
func ResponseHeaderTable() []NameAtom {
	var out []NameAtom
	for _, n := range []string{"set-cookie", "set-cookie2"} {
		for _, s := range spellings(n) {
			out = append(out, NameAtom{Value: s, Reason: "forbidden"})
		}
	}
	for _, n := range []string{"access-control-request-headers", "access-control-request-method", "access-control-request-private-network", "origin"} {
		for _, s := range spellings(n) {
			out = append(out, NameAtom{Value: s, Reason: "prohibited"})
		}
	}
	for _, n := range []string{"cache-control", "content-language", "content-length", "content-type", "expires", "last-modified", "pragma"} {
		for _, s := range spellings(n) {
			out = append(out, NameAtom{Value: s})
		}
	}
	for _, n := range []string{"set-cookie3", "set-cooki", "xset-cookie", "cookie", "origins", "x-origin", "access-control-request", "etag", "link", "location", "vary", "www-authenticate", "x-request-id"} {
		out = append(out, NameAtom{Value: n}, NameAtom{Value: strings.ToUpper(n)})
	}
	for _, n := range []string{"\u017fet-cookie", "x-\u212a", "or\u0131gin"} {
		out = append(out, NameAtom{Value: n, Reason: "invalid"})
	}
	return append(out, byteNames("x-", "-y")...)
}
