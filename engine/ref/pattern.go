package ref

import (
	"net/netip"
	"strings"
)

const (
	PatValid     = 1
	PatInvalid   = 0
	PatNotJudged = -1
)

// otherNotationIPv4 reports whether host is what the URL standard's IPv4 parser accepts as an address (1-4 parts,
// each decimal, 0x-hexadecimal or 0-octal) without being a canonical dotted quad.
func otherNotationIPv4(host string) bool {
	parts := strings.Split(host, ".")
	if len(parts) > 4 {
		return false
	}
	hexOrOctal := false
	for _, p := range parts {
		if p == "" {
			return false
		}
		digits := p
		if len(p) >= 2 && p[0] == '0' && (p[1] == 'x' || p[1] == 'X') {
			digits, hexOrOctal = p[2:], true
			for i := 0; i < len(digits); i++ {
				c := digits[i]
				if !(c >= '0' && c <= '9' || c >= 'a' && c <= 'f' || c >= 'A' && c <= 'F') {
					return false
				}
			}
			continue
		}
		for i := 0; i < len(digits); i++ {
			if digits[i] < '0' || digits[i] > '9' {
				return false
			}
		}
		if len(p) > 1 && p[0] == '0' {
			hexOrOctal = true
		}
	}
	// all parts are numbers: an IPv4 address in some notation; the canonical dotted quad is judged further down
	return hexOrOctal || len(parts) < 4
}

// PatternVerdict is a reference recogniser for origin patterns written from the documentation of
// Config.Origins. It answers PatNotJudged for the documented grey zones (https with an IP host, `_` in
// schemes or labels, labels that start or end with a hyphen or carry hyphens in positions 3-4, hosts whose
// last label starts with a digit but which are not dotted quads, Punycode labels, public-suffix questions).
func PatternVerdict(s string) int {
	if s == "*" || s == "null" {
		return PatInvalid // "*" is handled before pattern parsing; as a pattern proper it is not one
	}
	i := strings.Index(s, "://")
	if i < 0 {
		return PatInvalid
	}
	scheme, rest := s[:i], s[i+3:]
	if scheme == "" || len(scheme) > 64 {
		return PatInvalid
	}
	for j := 0; j < len(scheme); j++ {
		c := scheme[j]
		switch {
		case c >= 'a' && c <= 'z':
		case j > 0 && (c >= '0' && c <= '9' || c == '+' || c == '-' || c == '.'):
		case j > 0 && c == '_':
			return PatNotJudged
		default:
			return PatInvalid
		}
	}
	if scheme == "file" {
		return PatInvalid
	}
	// split host / port
	var host, port string
	hasPort := false
	if strings.HasPrefix(rest, "[") {
		j := strings.IndexByte(rest, ']')
		if j < 0 {
			return PatInvalid
		}
		host = rest[:j+1]
		tail := rest[j+1:]
		if tail != "" {
			if tail[0] != ':' {
				return PatInvalid
			}
			hasPort, port = true, tail[1:]
		}
	} else if j := strings.IndexByte(rest, ':'); j >= 0 {
		host, port, hasPort = rest[:j], rest[j+1:], true
	} else {
		host = rest
	}
	// port
	if hasPort && port != "*" {
		if port == "" || port[0] == '0' || len(port) > 5 {
			return PatInvalid
		}
		n := 0
		for j := 0; j < len(port); j++ {
			if port[j] < '0' || port[j] > '9' {
				return PatInvalid
			}
			n = n*10 + int(port[j]-'0')
		}
		if n > 65535 {
			return PatInvalid
		}
		if scheme == "http" && n == 80 || scheme == "https" && n == 443 {
			return PatInvalid
		}
	}
	// host
	if strings.HasPrefix(host, "[") {
		inner := host[1 : len(host)-1]
		a, err := netip.ParseAddr(inner)
		if err != nil || !a.Is6() || a.Is4In6() || a.Zone() != "" || a.String() != inner {
			return PatInvalid
		}
		if scheme == "https" {
			return PatNotJudged
		}
		return PatValid
	}
	wild := strings.HasPrefix(host, "*.")
	if wild {
		host = host[2:]
	}
	if host == "" {
		return PatInvalid
	}
	h := strings.TrimSuffix(host, ".")
	if h == "" {
		return PatInvalid
	}
	labels := strings.Split(h, ".")
	notJudged := false
	for _, l := range labels {
		if l == "" || len(l) > 63 {
			return PatInvalid
		}
		for j := 0; j < len(l); j++ {
			c := l[j]
			switch {
			case c >= 'a' && c <= 'z', c >= '0' && c <= '9', c == '-':
			case c == '_':
				notJudged = true
			default:
				return PatInvalid
			}
		}
		if l[0] == '-' || l[len(l)-1] == '-' || len(l) >= 4 && l[2] == '-' && l[3] == '-' {
			notJudged = true
		}
	}
	if otherNotationIPv4(h) {
		return PatInvalid // "Hosts that are IPv4 addresses must be specified in dotted-quad notation"
	}
	last := labels[len(labels)-1]
	if last[0] >= '0' && last[0] <= '9' {
		// looks like an IPv4 address: only canonical dotted quads are documented
		a, err := netip.ParseAddr(host)
		if err == nil && a.Is4() && a.String() == host {
			if wild {
				return PatInvalid
			}
			if scheme == "https" {
				return PatNotJudged
			}
			return PatValid
		}
		return PatNotJudged
	}
	if notJudged {
		return PatNotJudged
	}
	if wild && len(h) > 251 { // a `*.` needs at least two bytes of the 253
		return PatInvalid
	}
	if wild && strings.HasSuffix(host, ".") && len(h) == 251 {
		return PatNotJudged // rejected today although 253 bytes + dot would be a legal absolute name
	}
	if len(h) > 253 {
		return PatInvalid
	}
	return PatValid
}
