// Command vsched decides C07 (reconfiguration is atomic and race-free under concurrent traffic) by stateless
// exploration of thread schedules of the real middleware, compiled from an instrumented copy of package cors
// (see engine/instr) against the cooperative scheduler in ./sched.
package main

import (
	"encoding/json"
	"fmt"
	"net/http"
	"net/url"
	"os"
	"os/exec"
	"runtime"
	"runtime/debug"
	"sort"
	"strings"
	"sync"
	"sync/atomic"

	"github.com/jub0bs/cors"
	"github.com/jub0bs/cors/internal/zzverif/vlib"
	"github.com/jub0bs/cors/internal/zzverif/vsched/sched"
)

// ---- configurations: A and B differ in every observable aspect ----

func cfgA() cors.Config {
	return cors.Config{Origins: []string{"https://a.example"}, Methods: []string{"PUT"}, RequestHeaders: []string{"X-A"}, ResponseHeaders: []string{"X-Ra"}, MaxAgeInSeconds: 30}
}

// cfgAplus keeps A's origin list as a prefix and adds patterns on the same host (other port, other scheme,
// subdomains); every other observable aspect differs from A.
func cfgAplus() cors.Config {
	return cors.Config{Origins: []string{"https://a.example", "https://a.example:8443", "http://a.example", "https://*.a.example"}, Methods: []string{"PUT", "PATCH"}, RequestHeaders: []string{"X-A", "X-P"}, ResponseHeaders: []string{"X-Rp"}, MaxAgeInSeconds: 60}
}

func cfgB() cors.Config {
	return cors.Config{Origins: []string{"https://b.example"}, Credentialed: true, Methods: []string{"DELETE", "PATCH"}, RequestHeaders: []string{"X-B", "Authorization"}, ResponseHeaders: []string{"X-Rb", "X-Rc"}, MaxAgeInSeconds: -1,
		ExtraConfig: cors.ExtraConfig{PreflightSuccessStatus: 200, PrivateNetworkAccess: true}}
}

// cfgT has A's shape (every list as long as A's, every scalar equal) and other list elements: the configuration a
// caller reaches by overwriting the elements of A's lists in place.
func cfgT() cors.Config {
	return cors.Config{Origins: []string{"https://b.example"}, Methods: []string{"DELETE"}, RequestHeaders: []string{"X-B"}, ResponseHeaders: []string{"X-Rb"}, MaxAgeInSeconds: 30}
}

// cfgAtol is A with both DangerouslyTolerate* switches on: no response differs from A's, Config() does.
func cfgAtol() cors.Config {
	c := cfgA()
	c.DangerouslyTolerateInsecureOrigins, c.DangerouslyTolerateSubdomainsOfPublicSuffixes = true, true
	return c
}

// cfgL1 and cfgL2 have lists that validation has to filter, fold and de-duplicate (a repeated origin, safelisted and
// re-cased names, `*` next to Authorization). lv1 and lv2 are long-lived values of them that the caller never edits
// and hands to Reconfigure again and again ("lv1"/"lv2"): what a Config value means does not wear off with use.
func cfgL1() cors.Config {
	return cors.Config{Origins: []string{"https://a.example", "https://l1.example", "https://a.example"}, Methods: []string{"GET", "PUT", "put", "PUT"}, RequestHeaders: []string{"*", "Authorization", "X-L1"},
		ResponseHeaders: []string{"Cache-Control", "X-Ra", "x-ra", "X-L1", "Content-Type"}, MaxAgeInSeconds: 30}
}

func cfgL2() cors.Config {
	return cors.Config{Origins: []string{"https://b.example", "https://b.example", "https://l2.example"}, Methods: []string{"POST", "DELETE", "Delete"}, RequestHeaders: []string{"Accept", "X-B", "x-b", "X-L2"},
		ResponseHeaders: []string{"X-Rb", "Expires", "X-RB", "X-L2"}, MaxAgeInSeconds: 30}
}

var lv1, lv2 cors.Config

// tpl is the one long-lived Config value of the "tplA"/"tplT" reconfigurations: its list elements are overwritten
// in place and the same value is handed to Reconfigure again (what a reload loop that unmarshals into one variable
// does). Each long run starts with a fresh one.
var tpl cors.Config

func cfgInvalid() cors.Config {
	return cors.Config{Origins: []string{"https://c.example", "https://c.example/path"}, Methods: []string{"QUERY"}}
}

// ---- operations ----

type opSpec struct {
	Kind string `json:"kind"` // request | reconfigure | setdebug | config
	Arg  string `json:"arg"`  // request name; A|B|nil|invalid; true|false
}

func (o opSpec) String() string { return o.Kind + "(" + o.Arg + ")" }

type reqSpec struct {
	method string
	hdr    map[string][]string
}

var requests = map[string]reqSpec{
	// preflight that fails at the method step under A (debug-sensitive); origin not allowed under B
	"preflight-fail-method": {"OPTIONS", map[string][]string{"Origin": {"https://a.example"}, "Access-Control-Request-Method": {"DELETE"}, "Access-Control-Request-Headers": {"x-a"}}},
	"preflight-ok-A":        {"OPTIONS", map[string][]string{"Origin": {"https://a.example"}, "Access-Control-Request-Method": {"PUT"}, "Access-Control-Request-Headers": {"x-a"}}},
	"preflight-ok-B":        {"OPTIONS", map[string][]string{"Origin": {"https://b.example"}, "Access-Control-Request-Method": {"DELETE"}, "Access-Control-Request-Headers": {"authorization,x-b"}, "Access-Control-Request-Private-Network": {"true"}}},
	"actual-A":              {"GET", map[string][]string{"Origin": {"https://a.example"}}},
	"actual-B":              {"GET", map[string][]string{"Origin": {"https://b.example"}}},
	"noncors-options":       {"OPTIONS", nil},
	// allowed only once A's origin list has been extended (A+)
	"actual-Aplus": {"GET", map[string][]string{"Origin": {"https://a.example:8443"}}},
}

// srw is a ResponseWriter whose every method is a visible operation: a reconfiguration can land at each point
// where the middleware talks to it.
type srw struct {
	h      http.Header
	status int
	body   []byte
	// reentrant: a control call made by this very request from inside Header() / WriteHeader() (once)
	onHeader, onWriteHeader func()
}

func (w *srw) Header() http.Header {
	sched.Point(sched.Op{Kind: sched.OpEnv, Name: "w.Header()"})
	if f := w.onHeader; f != nil {
		w.onHeader = nil
		f()
	}
	return w.h
}
func (w *srw) WriteHeader(code int) {
	sched.Point(sched.Op{Kind: sched.OpEnv, Name: "w.WriteHeader()"})
	if f := w.onWriteHeader; f != nil {
		w.onWriteHeader = nil
		f()
	}
	if w.status == 0 {
		w.status = code
	}
}
func (w *srw) Write(p []byte) (int, error) {
	sched.Point(sched.Op{Kind: sched.OpEnv, Name: "w.Write()"})
	w.body = append(w.body, p...)
	return len(p), nil
}

type innerHandler struct {
	calls   int
	onEntry func() // reentrant control call made by the wrapped handler itself (e.g. an admin endpoint behind the middleware)
}

func (h *innerHandler) ServeHTTP(w http.ResponseWriter, r *http.Request) {
	sched.Point(sched.Op{Kind: sched.OpEnv, Name: "wrapped handler entry"})
	h.calls++
	if f := h.onEntry; f != nil {
		h.onEntry = nil
		f()
	}
	// an ordinary handler may edit, in place, the header values it can reach (e.g. tack a name onto a list): whatever
	// it touches belongs to this request only, so no other response may ever show the mark
	for _, hd := range []http.Header{w.Header(), r.Header} {
		for _, v := range hd {
			for i := range v {
				v[i] += "~h"
			}
		}
	}
	w.Header().Set("X-Inner", "1")
}

func renderConfig(c *cors.Config) string {
	if c == nil {
		return "nil"
	}
	return fmt.Sprintf("O=%q C=%t M=%q Q=%q A=%d R=%q S=%d P=%t N=%t I=%t L=%t", c.Origins, c.Credentialed, c.Methods, c.RequestHeaders, c.MaxAgeInSeconds, c.ResponseHeaders,
		c.PreflightSuccessStatus, c.PrivateNetworkAccess, c.PrivateNetworkAccessInNoCORSModeOnly, c.DangerouslyTolerateInsecureOrigins, c.DangerouslyTolerateSubdomainsOfPublicSuffixes)
}

// doOp performs one operation on m and returns its observable result.
func doOp(m *cors.Middleware, o opSpec) string {
	switch o.Kind {
	case "request":
		// "name" or "name@where:kind:arg": the request itself performs the control operation kind(arg) from inside
		// w.Header() (where=header), w.WriteHeader() (writeheader) or the wrapped handler (handler)
		name, nested, _ := strings.Cut(o.Arg, "@")
		rs := requests[name]
		hdr := make(http.Header, len(rs.hdr))
		for k, v := range rs.hdr {
			hdr[k] = append([]string(nil), v...)
		}
		req := &http.Request{Method: rs.method, Header: hdr, URL: &url.URL{Path: "/"}}
		inner := &innerHandler{}
		w := &srw{h: http.Header{}}
		nestedResult := ""
		if nested != "" {
			f := strings.SplitN(nested, ":", 3)
			do := func() { nestedResult = " nested:" + doOp(m, opSpec{f[1], f[2]}) }
			switch f[0] {
			case "header":
				w.onHeader = do
			case "writeheader":
				w.onWriteHeader = do
			case "handler":
				inner.onEntry = do
			}
		}
		m.Wrap(inner).ServeHTTP(w, req)
		keys := make([]string, 0, len(w.h))
		for k := range w.h {
			keys = append(keys, k)
		}
		sort.Strings(keys)
		var b strings.Builder
		fmt.Fprintf(&b, "status=%d handler=%d%s", w.status, inner.calls, nestedResult)
		for _, k := range keys {
			fmt.Fprintf(&b, " %s=%q", k, w.h[k])
		}
		return b.String()
	case "reconfigure":
		var err error
		switch o.Arg {
		case "nil":
			err = m.Reconfigure(nil)
		case "A":
			c := cfgA()
			err = m.Reconfigure(&c)
		case "B":
			c := cfgB()
			err = m.Reconfigure(&c)
		case "A+":
			c := cfgAplus()
			err = m.Reconfigure(&c)
		case "A~":
			c := cfgAtol()
			err = m.Reconfigure(&c)
		case "invalid":
			c := cfgInvalid()
			err = m.Reconfigure(&c)
		case "lv1":
			err = m.Reconfigure(&lv1)
		case "lv2":
			err = m.Reconfigure(&lv2)
		case "tplA", "tplT":
			src := cfgA()
			if o.Arg == "tplT" {
				src = cfgT()
			}
			copy(tpl.Origins, src.Origins)
			copy(tpl.Methods, src.Methods)
			copy(tpl.RequestHeaders, src.RequestHeaders)
			copy(tpl.ResponseHeaders, src.ResponseHeaders)
			err = m.Reconfigure(&tpl)
		}
		return fmt.Sprintf("err=%t", err != nil)
	case "setdebug":
		m.SetDebug(o.Arg == "true")
		return "done"
	case "config":
		return renderConfig(m.Config())
	}
	panic("unknown op " + o.String())
}

func newInit(init string) *cors.Middleware {
	switch init {
	case "zero":
		return new(cors.Middleware)
	case "A", "A+debug":
		m, err := cors.NewMiddleware(cfgA())
		if err != nil {
			panic(fmt.Sprintf("configuration A rejected: %v", err))
		}
		if init == "A+debug" {
			m.SetDebug(true)
		}
		return m
	}
	panic("unknown init " + init)
}

// ---- scenarios ----

type scenario struct {
	Init    string     `json:"init"`
	Threads [][]opSpec `json:"threads"`
	Bound   int        `json:"preemption_bound"` // -1: all interleavings
}

func (s scenario) String() string {
	var t []string
	for _, th := range s.Threads {
		var o []string
		for _, op := range th {
			o = append(o, op.String())
		}
		t = append(t, strings.Join(o, ";"))
	}
	return fmt.Sprintf("init=%s bound=%d %s", s.Init, s.Bound, strings.Join(t, " || "))
}

var finalProbe = []opSpec{{"request", "preflight-fail-method"}, {"request", "actual-B"}, {"config", ""}}

type event struct {
	Thread    int
	Op        opSpec
	Call, Ret int
	Result    string
}

type outcome struct {
	exec   *sched.Exec
	events []event
	probe  []string
}

// runSchedule executes the scenario under the given choice prefix (then default choices).
func runSchedule(s scenario, prefix []int) (out outcome, err error) {
	defer func() {
		if r := recover(); r != nil {
			err = fmt.Errorf("%v", r)
		}
	}()
	m := newInit(s.Init)
	var events []event
	bodies := make([]func(), len(s.Threads))
	for ti := range s.Threads {
		ti := ti
		bodies[ti] = func() {
			for _, op := range s.Threads[ti] {
				call := sched.Step()
				res := doOp(m, op)
				events = append(events, event{ti, op, call, sched.Step(), res})
				sched.Logf("T%d %s -> %s", ti, op, res)
			}
		}
	}
	diverged := ""
	e := sched.Run(bodies, func(n int, enabled []int, still bool) int {
		if n < len(prefix) {
			if prefix[n] >= len(enabled) {
				diverged = fmt.Sprintf("decision %d: prefix wants choice %d but only %d threads are enabled", n, prefix[n], len(enabled))
				return 0
			}
			return prefix[n]
		}
		return 0
	})
	if diverged != "" {
		return out, fmt.Errorf("DIVERGENCE while replaying a prefix: %s", diverged)
	}
	out.exec, out.events = e, events
	if e.Deadlock == "" {
		for _, op := range finalProbe {
			out.probe = append(out.probe, doOp(m, op))
		}
	}
	return out, nil
}

// ---- linearizability oracle: sequential replay on the real middleware ----

var (
	seqCache   = map[string][]string{}
	seqCacheMu sync.Mutex
)

// seqResults runs ops sequentially on a fresh middleware (scheduler inactive) followed by the final probe.
func seqResults(init string, ops []opSpec) []string {
	var kb strings.Builder
	kb.WriteString(init)
	for _, o := range ops {
		kb.WriteString("|" + o.String())
	}
	key := kb.String()
	seqCacheMu.Lock()
	r, ok := seqCache[key]
	seqCacheMu.Unlock()
	if ok {
		return r
	}
	m := newInit(init)
	for _, o := range ops {
		r = append(r, doOp(m, o))
	}
	for _, o := range finalProbe {
		r = append(r, doOp(m, o))
	}
	seqCacheMu.Lock()
	seqCache[key] = r
	seqCacheMu.Unlock()
	return r
}

// linearizable searches a total order of the events that respects real-time precedence (ret_a <= call_b) and
// whose sequential replay returns exactly the recorded results (including the final probe).
func linearizable(init string, evs []event, probe []string) (bool, string) {
	n := len(evs)
	order := make([]int, 0, n)
	used := make([]bool, n)
	var tried []string
	var rec func() bool
	rec = func() bool {
		if len(order) == n {
			ops := make([]opSpec, n)
			for i, j := range order {
				ops[i] = evs[j].Op
			}
			res := seqResults(init, ops)
			for i, j := range order {
				if res[i] != evs[j].Result {
					return false
				}
			}
			for i := range probe {
				if res[n+i] != probe[i] {
					return false
				}
			}
			return true
		}
		for j := 0; j < n; j++ {
			if used[j] {
				continue
			}
			ok := true
			for k := 0; k < n; k++ {
				if used[k] || k == j {
					continue
				}
				var before bool // must k come before j?
				if evs[k].Thread == evs[j].Thread {
					before = k < j // program order (events of one thread are appended in order)
				} else {
					before = evs[k].Ret <= evs[j].Call && !(evs[j].Ret <= evs[k].Call)
				}
				if before {
					ok = false
					break
				}
			}
			if !ok {
				continue
			}
			used[j] = true
			order = append(order, j)
			if rec() {
				return true
			}
			order = order[:len(order)-1]
			used[j] = false
		}
		return false
	}
	if rec() {
		return true, ""
	}
	_ = tried
	var b strings.Builder
	for _, e := range evs {
		fmt.Fprintf(&b, "\n  T%d %s [%d,%d] -> %s", e.Thread, e.Op, e.Call, e.Ret, e.Result)
	}
	fmt.Fprintf(&b, "\n  final probe -> %q", probe)
	return false, b.String()
}

// checkOutcome applies the per-schedule oracles; "" means fine.
func checkOutcome(s scenario, o outcome) string {
	if o.exec.Deadlock != "" {
		return "deadlock: " + o.exec.Deadlock
	}
	if len(o.exec.Races) > 0 {
		return "data race (happens-before): " + strings.Join(o.exec.Races, "; ")
	}
	if ok, why := linearizable(s.Init, o.events, o.probe); !ok {
		return "not linearizable: no single-state explanation for the recorded results:" + why
	}
	return ""
}

// ---- exploration ----

type witness struct {
	Scenario scenario `json:"scenario"`
	Choices  []int    `json:"choices"`
	Trace    []string `json:"trace,omitempty"`
}

type stats struct {
	Schedules    int64          `json:"schedules"`
	Decisions    int64          `json:"decisions"`
	MaxDecisions int            `json:"max_decisions"`
	Outcomes     map[string]int `json:"-"`
	NOutcomes    int            `json:"distinct_outcomes"`
	Violations   []witness      `json:"violations,omitempty"`
	Details      []string       `json:"details,omitempty"`
	HarnessErr   string         `json:"harness_error,omitempty"`
	Capped       bool           `json:"capped,omitempty"`
	Determinism  int            `json:"determinism_replays"`
}

type explorer struct {
	s        scenario
	st       *stats
	maxSched int64
}

func (x *explorer) explore(prefix []int) {
	if x.st.HarnessErr != "" || len(x.st.Violations) >= 2 {
		return
	}
	if x.maxSched > 0 && x.st.Schedules >= x.maxSched {
		x.st.Capped = true
		return
	}
	o, err := runSchedule(x.s, prefix)
	if err != nil {
		if strings.HasPrefix(err.Error(), "DIVERGENCE") {
			x.st.HarnessErr = err.Error()
			return
		}
		// a panic inside a thread of the code under test is a violation of its own
		x.st.Violations = append(x.st.Violations, witness{x.s, append([]int(nil), prefix...), nil})
		x.st.Details = append(x.st.Details, "panic: "+err.Error())
		return
	}
	x.st.Schedules++
	if x.st.Schedules%256 == 0 {
		runtime.GC() // collection is disabled during executions (no address reuse inside one execution)
	}
	e := o.exec
	x.st.Decisions += int64(len(e.Choices))
	if len(e.Choices) > x.st.MaxDecisions {
		x.st.MaxDecisions = len(e.Choices)
	}
	// determinism: the first schedules are replayed and must yield identical observations
	if x.st.Determinism < 50 {
		x.st.Determinism++
		o2, err2 := runSchedule(x.s, e.Choices)
		if err2 != nil || strings.Join(o2.exec.Log, "\n") != strings.Join(e.Log, "\n") || strings.Join(o2.exec.Trace, "\n") != strings.Join(e.Trace, "\n") {
			x.st.HarnessErr = fmt.Sprintf("nondeterminism: replaying schedule %v gave different observations (%v)", e.Choices, err2)
			return
		}
	}
	var sig strings.Builder
	for _, ev := range o.events {
		fmt.Fprintf(&sig, "T%d%s=%s|", ev.Thread, ev.Op, ev.Result)
	}
	sig.WriteString(strings.Join(o.probe, "|"))
	x.st.Outcomes[sig.String()]++
	if bad := checkOutcome(x.s, o); bad != "" {
		x.st.Violations = append(x.st.Violations, witness{x.s, append([]int(nil), e.Choices...), e.Trace})
		x.st.Details = append(x.st.Details, bad)
		return
	}
	cost := 0
	for i := 0; i < len(e.Choices); i++ {
		if i >= len(prefix) {
			for alt := 1; alt < len(e.Enabled[i]); alt++ {
				c := cost
				if e.Preempt[i] {
					c++
				}
				if x.s.Bound >= 0 && c > x.s.Bound {
					continue
				}
				next := make([]int, i+1)
				copy(next, e.Choices[:i])
				next[i] = alt
				x.explore(next)
			}
		}
		if e.Preempt[i] && e.Choices[i] != 0 {
			cost++
		}
	}
}

func exploreScenario(s scenario, maxSched int64) *stats {
	st := &stats{Outcomes: map[string]int{}}
	x := &explorer{s: s, st: st, maxSched: maxSched}
	x.explore(nil)
	st.NOutcomes = len(st.Outcomes)
	return st
}

// judge re-runs one witness; "" means the schedule is fine.
func judge(w witness) (string, error) {
	o, err := runSchedule(w.Scenario, w.Choices)
	if err != nil {
		if strings.HasPrefix(err.Error(), "DIVERGENCE") {
			return "", err
		}
		return "panic: " + err.Error(), nil
	}
	return checkOutcome(w.Scenario, o), nil
}

// ---- long runs: one long-lived handler, many completed control calls between two of its requests ----

type fwdHandler struct{ target http.Handler }

func (f *fwdHandler) ServeHTTP(w http.ResponseWriter, r *http.Request) { f.target.ServeHTTP(w, r) }

// serveVia serves the named request through a handler that was obtained from Wrap long ago.
func serveVia(h http.Handler, fw *fwdHandler, name string) string {
	rs := requests[name]
	hdr := make(http.Header, len(rs.hdr))
	for k, v := range rs.hdr {
		hdr[k] = append([]string(nil), v...)
	}
	inner := &innerHandler{}
	fw.target = inner
	w := &srw{h: http.Header{}}
	h.ServeHTTP(w, &http.Request{Method: rs.method, Header: hdr, URL: &url.URL{Path: "/"}})
	keys := make([]string, 0, len(w.h))
	for k := range w.h {
		keys = append(keys, k)
	}
	sort.Strings(keys)
	var b strings.Builder
	fmt.Fprintf(&b, "status=%d handler=%d", w.status, inner.calls)
	for _, k := range keys {
		fmt.Fprintf(&b, " %s=%q", k, w.h[k])
	}
	return b.String()
}

// two patterns: one in which every call changes the state, one with calls that change nothing mixed in (a failed
// Reconfigure, SetDebug on a passthrough middleware, Config())
var longRunPatterns = [][]opSpec{
	{{"reconfigure", "B"}, {"reconfigure", "A+"}, {"setdebug", "true"}, {"reconfigure", "A"}, {"setdebug", "false"}},
	{{"reconfigure", "B"}, {"reconfigure", "A+"}, {"setdebug", "true"}, {"reconfigure", "A"}, {"config", ""}, {"setdebug", "false"}, {"reconfigure", "invalid"}, {"reconfigure", "nil"}, {"setdebug", "true"}, {"reconfigure", "A"}, {"setdebug", "true"}},
	// one Config value whose list elements are overwritten in place between two Reconfigure calls
	{{"reconfigure", "tplT"}, {"reconfigure", "tplA"}, {"setdebug", "true"}, {"reconfigure", "tplT"}, {"config", ""}, {"reconfigure", "tplA"}, {"setdebug", "false"}},
	{{"reconfigure", "tplT"}, {"reconfigure", "B"}, {"reconfigure", "tplT"}, {"reconfigure", "tplA"}, {"reconfigure", "A+"}, {"setdebug", "true"}, {"reconfigure", "tplA"}, {"reconfigure", "invalid"}, {"reconfigure", "tplT"}},
	// long-lived Config values, never edited, handed over again and again
	{{"reconfigure", "lv1"}, {"reconfigure", "lv2"}, {"reconfigure", "lv1"}, {"setdebug", "true"}, {"reconfigure", "lv2"}, {"config", ""}, {"reconfigure", "lv1"}, {"reconfigure", "lv1"}, {"setdebug", "false"}, {"reconfigure", "lv2"}},
	// configurations that no response tells apart (A and A with the DangerouslyTolerate* switches on)
	{{"reconfigure", "A~"}, {"reconfigure", "A"}, {"setdebug", "true"}, {"reconfigure", "A~"}, {"config", ""}, {"reconfigure", "tplA"}, {"reconfigure", "A~"}, {"setdebug", "false"}},
}

// longRunExpectation: what a middleware built directly for one (configuration, debug) state answers to the probes,
// and its Config(). All of them are computed once, at process start, before any other use of the package under test:
// the expectation must not depend on what earlier calls may have left behind in process-wide state.
type longRunExpectation struct {
	probes []string
	config string
	err    string
}

var longRunExpect = map[string]longRunExpectation{}

func warmLongRunExpect() {
	for _, cfg := range []string{"", "A", "B", "A+", "T", "A~", "L1", "L2"} {
		for _, dbg := range []bool{false, true} {
			var e longRunExpectation
			fresh := new(cors.Middleware)
			if cfg != "" {
				c := map[string]func() cors.Config{"A": cfgA, "B": cfgB, "A+": cfgAplus, "T": cfgT, "A~": cfgAtol, "L1": cfgL1, "L2": cfgL2}[cfg]()
				var err error
				if fresh, err = cors.NewMiddleware(c); err != nil {
					e.err = "configuration " + cfg + " rejected: " + err.Error()
					longRunExpect[fmt.Sprint(cfg, dbg)] = e
					continue
				}
				fresh.SetDebug(dbg)
			}
			ffw := &fwdHandler{}
			fh := fresh.Wrap(ffw)
			for _, p := range longRunProbes {
				e.probes = append(e.probes, serveVia(fh, ffw, p))
			}
			e.config = renderConfig(fresh.Config())
			longRunExpect[fmt.Sprint(cfg, dbg)] = e
		}
	}
}

var longRunProbes = []string{"preflight-fail-method", "actual-A", "actual-B", "actual-Aplus", "preflight-ok-B", "noncors-options"}

// longRunGaps: how many completed control calls lie between two requests of the long-lived handler (every small
// count, and every count around the powers of two at which a narrow generation counter would wrap).
func longRunGaps(pat int) []int {
	var g []int
	if pat == 1 {
		for k := 1; k <= 640; k++ { // dense: the number of state-changing calls among them varies with the pattern
			g = append(g, k)
		}
		return g
	}
	for k := 1; k <= 70; k++ {
		g = append(g, k)
	}
	if pat >= 2 {
		return g
	}
	for _, c := range []int{128, 256, 512, 768, 1024, 4096, 65536} {
		for d := -3; d <= 3; d++ {
			g = append(g, c+d)
		}
	}
	return g
}

// longRun: a handler wrapped once; a request; gap control calls (no request in between); the probes through the
// same handler must then be answered as a middleware built directly for the state the documented state machine
// predicts. "" means fine.
func longRun(init string, gap, pat int) string {
	longRunPattern := longRunPatterns[pat]
	m := newInit(init)
	tpl = cfgA()
	lv1, lv2 = cfgL1(), cfgL2()
	fw := &fwdHandler{}
	h := m.Wrap(fw)
	cfg, dbg := "A", init == "A+debug"
	if init == "zero" {
		cfg, dbg = "", false
	}
	for _, p := range longRunProbes {
		serveVia(h, fw, p)
	}
	for i := 0; i < gap; i++ {
		o := longRunPattern[i%len(longRunPattern)]
		doOp(m, o)
		switch {
		case o.Kind == "config":
		case o.Kind == "setdebug":
			if cfg != "" {
				dbg = o.Arg == "true"
			}
		case o.Arg == "nil":
			cfg, dbg = "", false
		case o.Arg == "lv1":
			cfg = "L1"
		case o.Arg == "lv2":
			cfg = "L2"
		case o.Arg == "tplA":
			cfg = "A"
		case o.Arg == "tplT":
			cfg = "T"
		case o.Arg != "invalid":
			cfg = o.Arg
		}
	}
	if len(longRunExpect) == 0 {
		warmLongRunExpect()
	}
	e := longRunExpect[fmt.Sprint(cfg, dbg)]
	if e.err != "" {
		return e.err
	}
	for i, p := range longRunProbes {
		if got, want := serveVia(h, fw, p), e.probes[i]; got != want {
			return fmt.Sprintf("a handler obtained from Wrap at the start served requests, then %d control calls completed (pattern %v repeated) with no request in between; request %s through that handler is now answered\n  %s\nbut the state is (configuration %q, debug %t), for which a fresh middleware answers\n  %s", gap, longRunPattern, p, got, cfg, dbg, want)
		}
	}
	if got, want := renderConfig(m.Config()), e.config; got != want {
		return fmt.Sprintf("after %d control calls Config() is %s, a fresh middleware for the predicted state says %s", gap, got, want)
	}
	return ""
}

// ---- scenario alphabet ----

func scenarios(thorough bool) []scenario {
	inits := []string{"A", "A+debug", "zero"}
	reqs := []string{"preflight-fail-method", "preflight-ok-A", "actual-A", "actual-B", "noncors-options", "preflight-ok-B"}
	ctl := []opSpec{{"reconfigure", "B"}, {"reconfigure", "nil"}, {"reconfigure", "A"}, {"reconfigure", "invalid"}, {"setdebug", "true"}, {"setdebug", "false"}, {"config", ""}}
	var out []scenario
	// re-entrant control calls: the request itself reconfigures the middleware (or reads its configuration, or toggles
	// debug mode) from inside the ResponseWriter or the wrapped handler, next to a thread that reads the configuration
	for _, in := range inits {
		for _, r := range []string{"preflight-fail-method", "actual-A", "noncors-options"} {
			for _, where := range []string{"header", "writeheader", "handler"} {
				for _, c := range ctl {
					op := opSpec{"request", r + "@" + where + ":" + c.Kind + ":" + c.Arg}
					// (the other thread only reads: a request with a nested control call has two linearization points, and
					// the replay oracle treats it as one operation, which is exact only if nobody else writes in between)
					out = append(out, scenario{in, [][]opSpec{{op}, {{"config", ""}}}, -1})
				}
			}
		}
	}
	// a reconfiguration that extends the current origin list, against requests from an old and from an added origin
	for _, in := range inits {
		for _, r := range []string{"actual-A", "actual-Aplus", "preflight-ok-A"} {
			out = append(out, scenario{in, [][]opSpec{{{"request", r}}, {{"reconfigure", "A+"}}}, -1})
			for _, c2 := range ctl {
				out = append(out, scenario{in, [][]opSpec{{{"request", r}}, {{"reconfigure", "A+"}, c2}}, -1})
				out = append(out, scenario{in, [][]opSpec{{{"request", r}}, {c2, {"reconfigure", "A+"}}}, -1})
			}
			out = append(out, scenario{in, [][]opSpec{{{"request", r}}, {{"request", "actual-Aplus"}}, {{"reconfigure", "A+"}}}, 3})
		}
	}
	for _, in := range inits {
		for _, r := range reqs {
			// one control operation: all interleavings
			for _, c := range ctl {
				out = append(out, scenario{in, [][]opSpec{{{"request", r}}, {c}}, -1})
			}
			// two control operations: all interleavings in thorough, preemption bound 2 in quick
			for _, c1 := range ctl {
				for _, c2 := range ctl {
					out = append(out, scenario{in, [][]opSpec{{{"request", r}}, {c1, c2}}, -1})
					if thorough {
						// three control operations against one request: preemption bound 3
						for _, c3 := range ctl {
							out = append(out, scenario{in, [][]opSpec{{{"request", r}}, {c1, c2, c3}}, 3})
						}
					}
				}
			}
		}
	}
	// two control threads against each other (writer || writer, writer || Config)
	for _, in := range inits {
		for _, c1 := range ctl {
			for _, c2 := range ctl {
				out = append(out, scenario{in, [][]opSpec{{c1}, {c2}}, -1})
				if thorough {
					out = append(out, scenario{in, [][]opSpec{{c1, {"config", ""}}, {c2, {"setdebug", "true"}}}, -1})
				}
			}
		}
	}
	// three threads: request || control || control, and request || request || control
	b3 := 3
	if thorough {
		b3 = 4 // unbounded exploration of the scenarios with two request threads exceeds 3*10^6 schedules each
	}
	three := [][3][]opSpec{
		{{{"request", "preflight-fail-method"}}, {{"reconfigure", "B"}}, {{"setdebug", "true"}}},
		{{{"request", "preflight-fail-method"}}, {{"reconfigure", "nil"}}, {{"reconfigure", "A"}}},
		{{{"request", "preflight-ok-A"}}, {{"reconfigure", "B"}}, {{"reconfigure", "A"}}},
		{{{"request", "actual-A"}}, {{"reconfigure", "B"}}, {{"config", ""}}},
		{{{"request", "actual-B"}}, {{"reconfigure", "B"}}, {{"reconfigure", "nil"}}},
		{{{"request", "preflight-fail-method"}}, {{"request", "actual-B"}}, {{"reconfigure", "B"}}},
		{{{"request", "preflight-ok-A"}}, {{"request", "preflight-ok-B"}}, {{"reconfigure", "B"}, {"setdebug", "true"}}},
		{{{"config", ""}}, {{"reconfigure", "B"}}, {{"reconfigure", "A"}, {"setdebug", "true"}}},
		{{{"request", "preflight-fail-method"}}, {{"setdebug", "true"}}, {{"setdebug", "false"}, {"reconfigure", "nil"}}},
		{{{"request", "noncors-options"}, {"request", "actual-A"}}, {{"reconfigure", "nil"}}, {{"reconfigure", "B"}}},
	}
	for _, in := range inits {
		for _, t := range three {
			out = append(out, scenario{in, [][]opSpec{t[0], t[1], t[2]}, b3})
		}
	}
	return out
}

// ---- worker / parent ----

type workerResult struct {
	Index int    `json:"index"`
	Stats *stats `json:"stats"`
}

func workerMain(c *vlib.Ctx, shard, nshards int) {
	scs := scenarios(c.Thorough())
	enc := json.NewEncoder(os.Stdout)
	for i, s := range scs {
		if i%nshards != shard {
			continue
		}
		st := exploreScenario(s, 3_000_000)
		enc.Encode(workerResult{i, st})
	}
}

func main() {
	debug.SetGCPercent(-1) // no collection (hence no address reuse) inside an execution; see explorer.explore
	warmLongRunExpect()    // before anything else touches the package under test
	c := vlib.NewCtx()
	if c.Prop != "C07" {
		vlib.HarnessError("vsched serves C07 only")
	}
	if v := os.Getenv("VSCHED_WORKER"); v != "" {
		var shard, n int
		fmt.Sscanf(v, "%d/%d", &shard, &n)
		workerMain(c, shard, n)
		return
	}
	level, rule := "model_checking", "stateless exploration of thread schedules of the real middleware (instrumented copy of package cors under a cooperative scheduler): every interleaving of each 2-thread scenario (quick: preemption bound 2 when the control thread has two operations), preemption-bounded 3-thread scenarios; per schedule: vector-clock happens-before race detection over all Middleware/internalConfig field accesses, deadlock detection, and linearizability of the recorded call/return history against sequential replays on the real middleware; non-trivial = distinct observed outcome (results of all operations plus final probe) over all scenarios"
	if c.Replay != "" {
		var w witness
		if err := json.Unmarshal(c.LoadReplay(), &w); err != nil {
			vlib.HarnessError("cannot decode witness: %v", err)
		}
		c.States.Add(1)
		c.Transitions.Add(int64(len(w.Choices)))
		c.Evaluations.Add(1)
		c.Sample(w)
		if strings.HasPrefix(w.Scenario.Init, "free-running") {
			raceSupplement(c)
			os.Exit(c.Finish(level, rule))
		}
		if rest, ok := strings.CutPrefix(w.Scenario.Init, "long-run:"); ok {
			var pat int
			var init string
			fmt.Sscanf(rest, "%d:%s", &pat, &init)
			if bad := longRun(init, w.Scenario.Bound, pat); bad != "" {
				c.Violation(w, vlib.Failf("%s", bad), nil, "")
			}
			os.Exit(c.Finish(level, rule))
		}
		bad, err := judge(w)
		if err != nil {
			vlib.HarnessError("%v", err)
		}
		if bad != "" {
			c.Violation(w, vlib.Failf("%s\nscenario: %s\nschedule: %v", bad, w.Scenario, w.Trace), nil, testText(w, bad))
		}
		os.Exit(c.Finish(level, rule))
	}
	// sequential pre-pass: long runs (no scheduling involved; the oracle is the documented state machine)
	for pat := range longRunPatterns {
		for _, init := range []string{"A", "A+debug", "zero"} {
			for _, gap := range longRunGaps(pat) {
				c.States.Add(1)
				c.Transitions.Add(int64(gap + 2*len(longRunProbes)))
				c.Evaluations.Add(1)
				if bad := longRun(init, gap, pat); bad != "" {
					w := witness{Scenario: scenario{Init: fmt.Sprintf("long-run:%d:%s", pat, init), Bound: gap}}
					c.Violation(w, vlib.Failf("%s", bad), func() *vlib.Failure {
						if b := longRun(init, gap, pat); b != "" {
							return vlib.Failf("%s", b)
						}
						return nil
					}, "")
					break
				}
			}
		}
	}
	c.Set("long_run_gaps", len(longRunGaps(0))+len(longRunGaps(1))+len(longRunGaps(2))+len(longRunGaps(3))+len(longRunGaps(4))+len(longRunGaps(5)))
	if c.Violated() {
		// the sequential pre-pass has a witness already; code that fails it may keep process-wide state, under which
		// the schedule exploration below would not even be deterministic
		c.Cap("schedule exploration skipped: the sequential long-run pre-pass found a violation")
		os.Exit(c.Finish(level, rule))
	}
	scs := scenarios(c.Thorough())
	nw := runtime.NumCPU()
	if nw > len(scs) {
		nw = len(scs)
	}
	results := make([]*stats, len(scs))
	var mu sync.Mutex
	var wg sync.WaitGroup
	var werr []string
	self, _ := os.Executable()
	// violations are handled as the workers report them; once enough witnesses are recorded the workers are stopped
	// (a change that breaks the property may also make every execution much slower)
	var cmds []*exec.Cmd
	var stopping atomic.Bool
	handled := map[int]bool{}
	handle := func(i int, st *stats) {
		for vi, w := range st.Violations {
			w := w
			detail := st.Details[vi]
			c.Violation(w, vlib.Failf("%s\nscenario: %s\nschedule: %v", detail, w.Scenario, w.Trace), func() *vlib.Failure {
				bad, err := judge(w)
				if err != nil {
					vlib.HarnessError("%v", err)
				}
				if bad == "" {
					return nil
				}
				return vlib.Failf("%s", bad)
			}, testText(w, detail))
		}
		if c.Stopped() && !stopping.Swap(true) {
			mu.Lock()
			for _, cmd := range cmds {
				if cmd.Process != nil {
					cmd.Process.Kill()
				}
			}
			mu.Unlock()
		}
	}
	var handleMu sync.Mutex
	for w := 0; w < nw; w++ {
		wg.Add(1)
		go func(w int) {
			defer wg.Done()
			cmd := exec.Command(self, os.Args[1:]...)
			cmd.Env = append(os.Environ(), fmt.Sprintf("VSCHED_WORKER=%d/%d", w, nw), "GOMAXPROCS=2")
			var stderr strings.Builder
			cmd.Stderr = &stderr
			outp, err := cmd.StdoutPipe()
			if err != nil {
				mu.Lock()
				werr = append(werr, err.Error())
				mu.Unlock()
				return
			}
			mu.Lock()
			if stopping.Load() {
				mu.Unlock()
				return
			}
			if err := cmd.Start(); err != nil {
				werr = append(werr, err.Error())
				mu.Unlock()
				return
			}
			cmds = append(cmds, cmd)
			mu.Unlock()
			dec := json.NewDecoder(outp)
			for {
				var r workerResult
				if err := dec.Decode(&r); err != nil {
					break
				}
				mu.Lock()
				results[r.Index] = r.Stats
				mu.Unlock()
				if r.Stats != nil && len(r.Stats.Violations) > 0 && r.Stats.HarnessErr == "" {
					handleMu.Lock()
					handled[r.Index] = true
					handle(r.Index, r.Stats)
					handleMu.Unlock()
				}
			}
			if err := cmd.Wait(); err != nil && !stopping.Load() {
				mu.Lock()
				werr = append(werr, fmt.Sprintf("worker %d: %v: %s", w, err, tail(stderr.String(), 1500)))
				mu.Unlock()
			}
		}(w)
	}
	wg.Wait()
	if len(werr) > 0 {
		vlib.HarnessError("%s", strings.Join(werr, " | "))
	}
	var twoAll, twoBounded, three int
	var maxDec int
	outcomes := 0
	if stopping.Load() {
		c.Cap("schedule exploration stopped early: enough violations were recorded")
	}
	for i, st := range results {
		s := scs[i]
		if st == nil {
			if stopping.Load() {
				continue
			}
			vlib.HarnessError("no result for scenario %d (%s)", i, s)
		}
		if st.HarnessErr != "" {
			vlib.HarnessError("scenario %s: %s", s, st.HarnessErr)
		}
		c.Evaluations.Add(st.Schedules)
		c.States.Add(st.Schedules)
		c.Transitions.Add(st.Decisions)
		outcomes += st.NOutcomes
		if st.MaxDecisions > maxDec {
			maxDec = st.MaxDecisions
		}
		if st.Capped {
			c.Cap("schedule cap reached in scenario " + s.String())
		}
		switch {
		case len(s.Threads) == 3:
			three++
		case s.Bound < 0:
			twoAll++
		default:
			twoBounded++
		}
		if i%97 == 0 {
			c.Sample(map[string]any{"scenario": s.String(), "schedules": st.Schedules, "distinct_outcomes": st.NOutcomes, "max_decisions": st.MaxDecisions})
		}
		if !handled[i] {
			handle(i, st)
		}
	}
	c.Nontrivial.Add(int64(outcomes))
	c.Set("scenarios", map[string]int{"two_threads_all_interleavings": twoAll, "two_threads_preemption_bounded": twoBounded, "three_threads_preemption_bounded": three})
	c.Set("preemption_bounds", map[string]any{"two_threads_one_or_two_control_ops": "unbounded (all interleavings)", "two_threads_three_control_ops": vlib.Pick[any](c, "not explored", 3), "three_threads": vlib.Pick(c, 3, 4)})
	c.Set("max_decisions_in_one_schedule", maxDec)
	c.Set("determinism", "the first 50 schedules of every scenario and every failing schedule are replayed and must yield identical traces and results; a divergence while replaying a prefix is a harness error")
	if rep, err := os.ReadFile(os.Getenv("VERIF_INSTR_REPORT")); err == nil {
		var v any
		if json.Unmarshal(rep, &v) == nil {
			c.Set("instrumentation", v)
		}
	}
	c.Set("exhaustive", true)
	raceSupplement(c)
	os.Exit(c.Finish(level, rule))
}

func tail(s string, n int) string {
	if len(s) > n {
		return s[len(s)-n:]
	}
	return s
}

func testText(w witness, detail string) string {
	return fmt.Sprintf(`package cors_test

// Scenario %s.
// Violation: %s
// The schedule (thread, visible operation) that produces it:
//   %s
// To reproduce without the explorer: make the ResponseWriter / wrapped handler of the request thread perform
// the control thread's calls at the points shown (Header(), WriteHeader(), handler entry are all hookable), or
// run the scenario under -race in a loop.
`, w.Scenario, strings.ReplaceAll(detail, "\n", "\n// "), strings.Join(w.Trace, "\n//   "))
}

// raceSupplement runs the free-running -race binary (real sync package) if ./check built one. A DATA RACE
// report is a violation; silence adds nothing to the claim.
func raceSupplement(c *vlib.Ctx) {
	bin := os.Getenv("VERIF_VRACE")
	if bin == "" {
		c.Set("race_supplement", "not run (no -race binary)")
		return
	}
	iters := vlib.Pick(c, "300", "3000")
	cmd := exec.Command(bin, iters)
	cmd.Env = append(os.Environ(), "GORACE=halt_on_error=0 exitcode=66")
	out, err := cmd.CombinedOutput()
	if strings.Contains(string(out), "DATA RACE") {
		first := string(out)
		if i := strings.Index(first, "WARNING: DATA RACE"); i >= 0 {
			first = first[i:]
		}
		w := witness{Scenario: scenario{Init: "free-running -race supplement"}}
		c.Violation(w, vlib.Failf("the Go race detector reports a data race in the free-running pass:\n%s", tail(first[:min(len(first), 3000)], 3000)), nil, "")
		return
	}
	if err != nil {
		c.Set("race_supplement", "failed to run: "+err.Error()+" "+tail(string(out), 300))
		return
	}
	c.Set("race_supplement", "free-running -race pass ("+iters+" iterations per scenario): no report")
}
