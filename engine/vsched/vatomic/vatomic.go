// Package vatomic is the subset of sync/atomic that the shims provide: every operation is a scheduling point
// and a sequentially consistent synchronisation on the object.
package vatomic

import "github.com/jub0bs/cors/internal/zzverif/vsched/sched"

type Bool struct {
	m sched.AtomicModel
	v bool
}

func (b *Bool) Load() bool   { sched.AtomicPoint(&b.m, "atomic.Bool.Load"); return b.v }
func (b *Bool) Store(v bool) { sched.AtomicPoint(&b.m, "atomic.Bool.Store"); b.v = v }
func (b *Bool) Swap(v bool) bool {
	sched.AtomicPoint(&b.m, "atomic.Bool.Swap")
	old := b.v
	b.v = v
	return old
}
func (b *Bool) CompareAndSwap(old, new bool) bool {
	sched.AtomicPoint(&b.m, "atomic.Bool.CompareAndSwap")
	if b.v == old {
		b.v = new
		return true
	}
	return false
}

type Pointer[T any] struct {
	m sched.AtomicModel
	v *T
}

func (p *Pointer[T]) Load() *T   { sched.AtomicPoint(&p.m, "atomic.Pointer.Load"); return p.v }
func (p *Pointer[T]) Store(v *T) { sched.AtomicPoint(&p.m, "atomic.Pointer.Store"); p.v = v }
func (p *Pointer[T]) Swap(v *T) *T {
	sched.AtomicPoint(&p.m, "atomic.Pointer.Swap")
	old := p.v
	p.v = v
	return old
}
func (p *Pointer[T]) CompareAndSwap(old, new *T) bool {
	sched.AtomicPoint(&p.m, "atomic.Pointer.CompareAndSwap")
	if p.v == old {
		p.v = new
		return true
	}
	return false
}

type Value struct {
	m sched.AtomicModel
	v any
}

func (p *Value) Load() any   { sched.AtomicPoint(&p.m, "atomic.Value.Load"); return p.v }
func (p *Value) Store(v any) { sched.AtomicPoint(&p.m, "atomic.Value.Store"); p.v = v }

type intLike interface {
	~int32 | ~int64 | ~uint32 | ~uint64
}

type num[T intLike] struct {
	m sched.AtomicModel
	v T
}

func (n *num[T]) Load() T   { sched.AtomicPoint(&n.m, "atomic.Load"); return n.v }
func (n *num[T]) Store(v T) { sched.AtomicPoint(&n.m, "atomic.Store"); n.v = v }
func (n *num[T]) Add(d T) T { sched.AtomicPoint(&n.m, "atomic.Add"); n.v += d; return n.v }
func (n *num[T]) Swap(v T) T {
	sched.AtomicPoint(&n.m, "atomic.Swap")
	old := n.v
	n.v = v
	return old
}
func (n *num[T]) CompareAndSwap(old, new T) bool {
	sched.AtomicPoint(&n.m, "atomic.CompareAndSwap")
	if n.v == old {
		n.v = new
		return true
	}
	return false
}

type Int32 struct{ num[int32] }
type Int64 struct{ num[int64] }
type Uint32 struct{ num[uint32] }
type Uint64 struct{ num[uint64] }
