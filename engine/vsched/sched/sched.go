// Package sched is a cooperative scheduler for stateless model checking of real goroutines: exactly one
// harness thread runs at a time; a thread stops at every visible operation (Point) and the explorer decides
// which pending operation executes next. It also hosts the vector-clock happens-before race detector that the
// shims (vsync, vatomic) and field hooks (vhook) feed.
//
// When no execution is active (set-up code, sequential replays for the linearizability oracle) every entry
// point is a pass-through.
package sched

import (
	"fmt"
	"runtime"
	"sort"
	"strings"
)

type OpKind uint8

const (
	OpStart OpKind = iota
	OpLock
	OpUnlock
	OpRLock
	OpRUnlock
	OpAtomic
	OpRead  // field read (scheduling point)
	OpWrite // field write (scheduling point)
	OpEnv   // call into the environment (ResponseWriter, wrapped handler) or harness-level step
)

var kindNames = [...]string{"start", "Lock", "Unlock", "RLock", "RUnlock", "atomic", "read", "write", "env"}

type Op struct {
	Kind OpKind
	Obj  any    // *MutexModel for lock operations; nil otherwise
	Name string // description for traces
}

// MutexModel is the scheduler's view of a (RW)mutex: plain reader/writer exclusion, a superset of the
// schedules Go's writer-preferring RWMutex admits.
type MutexModel struct {
	writer  bool
	readers int
	relW    VC // clock released by the last Unlock
	relR    VC // join of clocks released by RUnlocks
}

type VC []uint32

func (a VC) join(b VC) VC {
	for len(a) < len(b) {
		a = append(a, 0)
	}
	for i, v := range b {
		if v > a[i] {
			a[i] = v
		}
	}
	return a
}

func (a VC) leq(b VC) bool {
	for i, v := range a {
		if v == 0 {
			continue
		}
		if i >= len(b) || v > b[i] {
			return false
		}
	}
	return true
}

func (a VC) clone() VC { return append(VC(nil), a...) }

type thread struct {
	id      int
	resume  chan struct{}
	pending Op
	done    bool
	vc      VC
	panicv  any
}

type loc struct {
	wTid   int
	wClock uint32
	wName  string
	reads  VC
	rNames map[int]string
}

// Exec is one controlled execution.
type Exec struct {
	threads []*thread
	parked  chan int // thread id that just parked or finished
	running int
	locs    map[uintptr]*loc

	Choices  []int   // index chosen at every scheduling decision (into the canonical enabled list)
	Enabled  [][]int // the canonical enabled list at every decision
	Preempt  []bool  // whether the running thread was still enabled at this decision
	Trace    []string
	Races    []string
	Deadlock string
	Steps    int
	Log      []string // observation log appended to by the harness (for determinism checks)
}

var cur *Exec

// Active reports whether a controlled execution is running (on the calling goroutine's behalf).
func Active() bool { return cur != nil }

// Step returns the number of operations executed so far (a logical clock for call/return stamps).
func Step() int {
	if cur == nil {
		return 0
	}
	return cur.Steps
}

// Logf appends to the observation log of the current execution.
func Logf(format string, a ...any) {
	if cur != nil {
		cur.Log = append(cur.Log, fmt.Sprintf(format, a...))
	}
}

// A Chooser picks the index (into enabled, canonical order: running thread first if still enabled, then
// ascending ids) of the thread to run at decision number n.
type Chooser func(n int, enabled []int, runningStillEnabled bool) int

const maxSteps = 100000

// Run executes the thread bodies under the control of choose and returns the execution record.
// base is the vector clock inherited by every thread (set-up happens-before everything).
func Run(bodies []func(), choose Chooser) *Exec {
	if cur != nil {
		panic("sched: nested Run")
	}
	e := &Exec{parked: make(chan int), locs: map[uintptr]*loc{}, running: -1}
	for i := range bodies {
		t := &thread{id: i, resume: make(chan struct{}), pending: Op{Kind: OpStart, Name: "start"}}
		t.vc = make(VC, len(bodies))
		t.vc[i] = 1
		e.threads = append(e.threads, t)
	}
	cur = e
	for i, body := range bodies {
		t := e.threads[i]
		go func(body func()) {
			<-t.resume
			defer func() {
				if r := recover(); r != nil {
					t.panicv = fmt.Sprintf("%v\n%s", r, stack())
				}
				t.done = true
				e.parked <- t.id
			}()
			body()
		}(body)
	}
	for {
		enabled, allDone := e.enabledThreads()
		if len(enabled) == 0 {
			if !allDone {
				var w []string
				for _, t := range e.threads {
					if !t.done {
						w = append(w, fmt.Sprintf("T%d waits for %s", t.id, t.pending.Name))
					}
				}
				e.Deadlock = strings.Join(w, "; ")
				// threads stay parked forever; they hold no real locks, so they are simply abandoned
			}
			break
		}
		still := false
		if e.running >= 0 {
			for i, id := range enabled {
				if id == e.running {
					enabled[0], enabled[i] = enabled[i], enabled[0]
					sort.Ints(enabled[1:])
					still = true
					break
				}
			}
		}
		n := len(e.Choices)
		c := 0
		if len(enabled) > 1 {
			c = choose(n, enabled, still)
			if c < 0 || c >= len(enabled) {
				panic(fmt.Sprintf("sched: choice %d out of range (enabled %v) at decision %d", c, enabled, n))
			}
		}
		e.Choices = append(e.Choices, c)
		e.Enabled = append(e.Enabled, append([]int(nil), enabled...))
		e.Preempt = append(e.Preempt, still)
		t := e.threads[enabled[c]]
		e.running = t.id
		e.apply(t)
		e.Steps++
		if e.Steps > maxSteps {
			e.Deadlock = "step limit exceeded (livelock?)"
			break
		}
		t.resume <- struct{}{}
		<-e.parked
		if t.panicv != nil {
			cur = nil
			panic(fmt.Sprintf("panic in thread T%d: %v", t.id, t.panicv))
		}
	}
	cur = nil
	return e
}

func stack() string {
	buf := make([]byte, 4096)
	return string(buf[:runtime.Stack(buf, false)])
}

func (e *Exec) enabledThreads() (enabled []int, allDone bool) {
	allDone = true
	for _, t := range e.threads {
		if t.done {
			continue
		}
		allDone = false
		if e.isEnabled(t.pending) {
			enabled = append(enabled, t.id)
		}
	}
	return
}

func (e *Exec) isEnabled(op Op) bool {
	switch op.Kind {
	case OpLock:
		m := op.Obj.(*MutexModel)
		return !m.writer && m.readers == 0
	case OpRLock:
		m := op.Obj.(*MutexModel)
		return !m.writer
	}
	return true
}

// apply performs the model side of the chosen thread's pending operation (the real side happens when the
// thread resumes).
func (e *Exec) apply(t *thread) {
	op := t.pending
	e.Trace = append(e.Trace, fmt.Sprintf("T%d %s", t.id, op.Name))
	switch op.Kind {
	case OpLock:
		m := op.Obj.(*MutexModel)
		m.writer = true
		t.vc = t.vc.join(m.relW).join(m.relR)
	case OpRLock:
		m := op.Obj.(*MutexModel)
		m.readers++
		t.vc = t.vc.join(m.relW)
	case OpUnlock:
		m := op.Obj.(*MutexModel)
		if !m.writer {
			panic("sched: Unlock of an unlocked mutex")
		}
		m.writer = false
		m.relW = t.vc.clone()
		m.relR = nil
		t.vc[t.id]++
	case OpRUnlock:
		m := op.Obj.(*MutexModel)
		if m.readers == 0 {
			panic("sched: RUnlock of a mutex that is not read-locked")
		}
		m.readers--
		m.relR = m.relR.join(t.vc)
		t.vc[t.id]++
	}
}

// Point announces the calling thread's next visible operation and blocks until the explorer schedules it.
func Point(op Op) {
	e := cur
	if e == nil {
		return
	}
	t := e.threads[e.running]
	t.pending = op
	e.parked <- t.id
	<-t.resume
}

// Access records a memory access for the race detector (no scheduling point).
func Access(addr uintptr, write bool, name string) {
	e := cur
	if e == nil {
		return
	}
	t := e.threads[e.running]
	l := e.locs[addr]
	if l == nil {
		l = &loc{wTid: -1, rNames: map[int]string{}}
		e.locs[addr] = l
	}
	// write-read / write-write conflict
	if l.wTid >= 0 && l.wTid != t.id && !(l.wClock <= at(t.vc, l.wTid)) {
		e.race(fmt.Sprintf("%s by T%d races with write %s by T%d", accessName(write, name), t.id, l.wName, l.wTid))
	}
	if write {
		for tid, c := range l.reads {
			if c != 0 && tid != t.id && !(c <= at(t.vc, tid)) {
				e.race(fmt.Sprintf("write %s by T%d races with read %s by T%d", name, t.id, l.rNames[tid], tid))
			}
		}
		l.wTid, l.wClock, l.wName = t.id, t.vc[t.id], name
		l.reads = nil
	} else {
		for len(l.reads) <= t.id {
			l.reads = append(l.reads, 0)
		}
		l.reads[t.id] = t.vc[t.id]
		l.rNames[t.id] = name
	}
}

func at(v VC, i int) uint32 {
	if i < len(v) {
		return v[i]
	}
	return 0
}

func accessName(write bool, name string) string {
	if write {
		return "write " + name
	}
	return "read " + name
}

func (e *Exec) race(s string) {
	for _, r := range e.Races {
		if r == s {
			return
		}
	}
	e.Races = append(e.Races, s)
}

// AtomicSync models a sequentially consistent atomic operation on obj: it is a scheduling point and both an
// acquire and a release on the object's clock.
type AtomicModel struct{ clock VC }

func AtomicPoint(m *AtomicModel, name string) {
	e := cur
	if e == nil {
		return
	}
	Point(Op{Kind: OpAtomic, Name: name})
	t := e.threads[e.running]
	t.vc = t.vc.join(m.clock)
	m.clock = t.vc.clone()
	t.vc[t.id]++
}

// Sequential (uncontrolled) model transitions, used by the shims outside Run.
func SeqLock(m *MutexModel) {
	if m.writer || m.readers != 0 {
		panic("sched: sequential Lock of a held mutex (would deadlock)")
	}
	m.writer = true
}
func SeqUnlock(m *MutexModel) {
	if !m.writer {
		panic("sched: Unlock of an unlocked mutex")
	}
	m.writer = false
}
func SeqRLock(m *MutexModel) {
	if m.writer {
		panic("sched: sequential RLock of a write-locked mutex (would deadlock)")
	}
	m.readers++
}
func SeqRUnlock(m *MutexModel) {
	if m.readers == 0 {
		panic("sched: RUnlock of a mutex that is not read-locked")
	}
	m.readers--
}
