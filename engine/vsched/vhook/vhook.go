// Package vhook holds the field-access hooks the instrumenter inserts into package cors: X.f becomes
// vhook.R(PX, unsafe.Offsetof(T{}.f), "T.f").f where PX is X (a pointer) or &X.
// R/W: access to a field of a struct that holds a lock (scheduling point + race-detector event).
// Rq/Wq: access to a field of a struct reachable from it (race-detector event only).
package vhook

import (
	"unsafe"

	"github.com/jub0bs/cors/internal/zzverif/vsched/sched"
)

func R[T any](p *T, off uintptr, name string) *T {
	if sched.Active() && p != nil {
		sched.Point(sched.Op{Kind: sched.OpRead, Name: "read " + name})
		sched.Access(uintptr(unsafe.Pointer(p))+off, false, name)
	}
	return p
}

func W[T any](p *T, off uintptr, name string) *T {
	if sched.Active() && p != nil {
		sched.Point(sched.Op{Kind: sched.OpWrite, Name: "write " + name})
		sched.Access(uintptr(unsafe.Pointer(p))+off, true, name)
	}
	return p
}

func Rq[T any](p *T, off uintptr, name string) *T {
	if sched.Active() && p != nil {
		sched.Access(uintptr(unsafe.Pointer(p))+off, false, name)
	}
	return p
}

func Wq[T any](p *T, off uintptr, name string) *T {
	if sched.Active() && p != nil {
		sched.Access(uintptr(unsafe.Pointer(p))+off, true, name)
	}
	return p
}

// RqAll / WqAll: a whole-struct read / write through a pointer (*p) touches every field.
func RqAll[T any](p *T, name string, offs ...uintptr) *T {
	if sched.Active() && p != nil {
		for _, o := range offs {
			sched.Access(uintptr(unsafe.Pointer(p))+o, false, name+" (whole struct)")
		}
	}
	return p
}

func WqAll[T any](p *T, name string, offs ...uintptr) *T {
	if sched.Active() && p != nil {
		for _, o := range offs {
			sched.Access(uintptr(unsafe.Pointer(p))+o, true, name+" (whole struct)")
		}
	}
	return p
}
