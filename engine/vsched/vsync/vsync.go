// Package vsync is the subset of package sync used by the code under test, with every operation turned into
// a visible operation of the cooperative scheduler. Outside a controlled execution the operations only keep
// the model state (no real blocking is needed: set-up and sequential replays are single-threaded).
package vsync

import (
	"fmt"

	"github.com/jub0bs/cors/internal/zzverif/vsched/sched"
)

type Mutex struct{ m sched.MutexModel }

func (mu *Mutex) Lock() {
	sched.Point(sched.Op{Kind: sched.OpLock, Obj: &mu.m, Name: fmt.Sprintf("Lock(%p)", mu)})
	lockSeq(&mu.m)
}
func (mu *Mutex) Unlock() {
	sched.Point(sched.Op{Kind: sched.OpUnlock, Obj: &mu.m, Name: fmt.Sprintf("Unlock(%p)", mu)})
	unlockSeq(&mu.m)
}
func (mu *Mutex) TryLock() bool {
	panic("vsync: TryLock is not modelled")
}

type RWMutex struct{ m sched.MutexModel }

func (mu *RWMutex) Lock() {
	sched.Point(sched.Op{Kind: sched.OpLock, Obj: &mu.m, Name: "mu.Lock"})
	lockSeq(&mu.m)
}
func (mu *RWMutex) Unlock() {
	sched.Point(sched.Op{Kind: sched.OpUnlock, Obj: &mu.m, Name: "mu.Unlock"})
	unlockSeq(&mu.m)
}
func (mu *RWMutex) RLock() {
	sched.Point(sched.Op{Kind: sched.OpRLock, Obj: &mu.m, Name: "mu.RLock"})
	rlockSeq(&mu.m)
}
func (mu *RWMutex) RUnlock() {
	sched.Point(sched.Op{Kind: sched.OpRUnlock, Obj: &mu.m, Name: "mu.RUnlock"})
	runlockSeq(&mu.m)
}

// Outside a controlled execution the scheduler does not apply the model transition; do it here so that a
// sequential double Lock is still detected (as a panic instead of a silent hang).
func lockSeq(m *sched.MutexModel) {
	if !sched.Active() {
		sched.SeqLock(m)
	}
}
func unlockSeq(m *sched.MutexModel) {
	if !sched.Active() {
		sched.SeqUnlock(m)
	}
}
func rlockSeq(m *sched.MutexModel) {
	if !sched.Active() {
		sched.SeqRLock(m)
	}
}
func runlockSeq(m *sched.MutexModel) {
	if !sched.Active() {
		sched.SeqRUnlock(m)
	}
}

type Once struct {
	mu   Mutex
	done bool
}

func (o *Once) Do(f func()) {
	o.mu.Lock()
	defer o.mu.Unlock()
	if !o.done {
		o.done = true
		f()
	}
}

// Types below exist so that code using them fails loudly instead of silently escaping the scheduler.
type WaitGroup struct{}

func (*WaitGroup) Add(int) { panic("vsync: WaitGroup is not modelled") }
func (*WaitGroup) Done()   { panic("vsync: WaitGroup is not modelled") }
func (*WaitGroup) Wait()   { panic("vsync: WaitGroup is not modelled") }
