package main

import (
	"fmt"
	"net/http"
	"slices"
	"sort"
	"strconv"
	"strings"

	"github.com/jub0bs/cors"
	"github.com/jub0bs/cors/internal/origins"
	"github.com/jub0bs/cors/internal/zzverif/ref"
	"github.com/jub0bs/cors/internal/zzverif/vlib"
)

// C01 — allowed origins = union of what the configured patterns denote; order and multiplicity irrelevant.
//
// Engine: explicit-state search over insertion sequences on the real radix tree (state = dump of the tree),
// invariant on every transition: for every probe o, Contains(o) <=> some inserted pattern denotes o.
// A second pass binds the result to the public API (NewMiddleware + GET / preflight).

type c01Case struct {
	Patterns []string `json:"patterns"` // in insertion / listing order
	Origin   string   `json:"origin"`
	Via      string   `json:"via"` // "tree" | "api"
}

func c01Judge(k c01Case) *vlib.Failure {
	want := ref.DenotedByAny(k.Patterns, k.Origin)
	switch k.Via {
	case "tree":
		var tree origins.Tree
		for _, raw := range k.Patterns {
			p, err := origins.ParsePattern(raw)
			if err != nil {
				return vlib.Failf("valid pattern %q rejected by ParsePattern: %v", raw, err)
			}
			tree.Insert(&p)
		}
		o, ok := origins.Parse(k.Origin)
		got := ok && tree.Contains(&o)
		if got != want {
			return vlib.Failf("after inserting %q in this order, Contains(%q)=%t (origin parsed=%t) but the patterns denote it: %t", k.Patterns, k.Origin, got, ok, want)
		}
	case "api", "api-no-psl-switch", "api-credentialed", "api-pna":
		all := false
		for _, p := range k.Patterns {
			if p == "*" {
				all = true
			}
		}
		cfg := cors.Config{Origins: k.Patterns, ExtraConfig: cors.ExtraConfig{DangerouslyTolerateSubdomainsOfPublicSuffixes: k.Via != "api-no-psl-switch"}}
		// (which origins are allowed is decided by Origins alone: credentials and private-network access only restrict
		// which lists are acceptable)
		cfg.Credentialed, cfg.PrivateNetworkAccess = k.Via == "api-credentialed", k.Via == "api-pna"
		m, err := cors.NewMiddleware(cfg)
		if err != nil {
			if k.Via != "api" {
				return nil // the list needs a switch that this variant does not set
			}
			return vlib.Failf("list of valid patterns %q rejected: %v", k.Patterns, err)
		}
		// earlier requests (from the probe origin and from every listed pattern taken as an origin) were served by a
		// handler that overwrites in place whatever header slices it can reach: those belong to their own exchange
		hs := m.Wrap(scribbler{})
		for _, o := range append([]string{k.Origin}, k.Patterns...) {
			hs.ServeHTTP(vlib.NewRec(), vlib.Req{Method: "GET", Hdr: map[string][]string{"Origin": {o}}}.HTTP())
		}
		inner := &vlib.Noop{}
		h := m.Wrap(inner)
		res := vlib.Serve(h, &inner.Calls, vlib.Req{Method: "GET", Hdr: map[string][]string{"Origin": {k.Origin}}}, nil)
		acao := res.Hdr["Access-Control-Allow-Origin"]
		got := len(acao) == 1 && (acao[0] == k.Origin || all && acao[0] == "*")
		if len(acao) > 1 || len(acao) == 1 && !got {
			return vlib.Failf("unexpected ACAO %q for Origin %q under %q", acao, k.Origin, k.Patterns)
		}
		if got != (want || all) {
			return vlib.Failf("Origins=%q, GET with Origin %q: ACAO=%q but the configuration allows it: %t", k.Patterns, k.Origin, acao, want || all)
		}
		for _, dbg := range []bool{false, true} {
			m.SetDebug(dbg)
			pre := vlib.Serve(h, &inner.Calls, vlib.Req{Method: "OPTIONS", Hdr: map[string][]string{"Origin": {k.Origin}, "Access-Control-Request-Method": {"GET"}}}, nil)
			pacao := pre.Hdr["Access-Control-Allow-Origin"]
			pgot := pre.Status/100 == 2 && len(pacao) == 1 && (pacao[0] == k.Origin || all && pacao[0] == "*")
			if pgot != (want || all) {
				return vlib.Failf("Origins=%q, debug=%t, preflight with Origin %q: status %d ACAO=%q but the configuration allows it: %t", k.Patterns, dbg, k.Origin, pre.Status, pacao, want || all)
			}
			if dbg {
				res := vlib.Serve(h, &inner.Calls, vlib.Req{Method: "GET", Hdr: map[string][]string{"Origin": {k.Origin}}}, nil)
				acao := res.Hdr["Access-Control-Allow-Origin"]
				if got := len(acao) == 1 && (acao[0] == k.Origin || all && acao[0] == "*"); got != (want || all) || len(acao) > 1 {
					return vlib.Failf("Origins=%q, debug on, GET with Origin %q: ACAO=%q but the configuration allows it: %t", k.Patterns, k.Origin, acao, want || all)
				}
			}
		}
	case "api-after-reconfigure", "api-reconfigure-in-flight", "api-edit-in-place-and-reconfigure":
		// the probe origin was allowed a moment ago by another configuration of the same middleware
		got, err := c01History(k.Patterns, k.Origin, slices.Index(c01HistoryVias, k.Via))
		if err != nil {
			return vlib.Failf("%v", err)
		}
		all := slices.Contains(k.Patterns, "*")
		if got != (want || all) {
			return vlib.Failf("middleware first configured with Origins=[%q], then reconfigured (%s) to Origins=%q: GET with Origin %q allowed=%t, the current configuration says %t", k.Origin, k.Via, k.Patterns, k.Origin, got, want || all)
		}
	default:
		if name, value, ok := strings.Cut(strings.TrimPrefix(k.Via, "api-with-header:"), ":"); ok && strings.HasPrefix(k.Via, "api-with-header:") {
			m, err := cors.NewMiddleware(cors.Config{Origins: k.Patterns})
			if err != nil {
				return vlib.Failf("list of valid patterns %q rejected: %v", k.Patterns, err)
			}
			all := slices.Contains(k.Patterns, "*")
			h := m.Wrap(noopHandler)
			for _, dbg := range []bool{false, true} {
				m.SetDebug(dbg)
				for _, base := range []vlib.Req{{Method: "GET", Hdr: map[string][]string{"Origin": {k.Origin}}}, {Method: "OPTIONS", Hdr: map[string][]string{"Origin": {k.Origin}, "Access-Control-Request-Method": {"GET"}}}} {
					rec := vlib.NewRec()
					h.ServeHTTP(rec, withDictionaryHeader(base, [2]string{name, value}).HTTP())
					acao := rec.H["Access-Control-Allow-Origin"]
					got := len(acao) == 1 && (acao[0] == k.Origin || all && acao[0] == "*") && (base.Method == "GET" || rec.Status/100 == 2)
					if got != (want || all) {
						return vlib.Failf("Origins=%q debug=%t: %s with Origin %q and the additional request header %s: %s is answered with status %d ACAO=%q, the configuration allows the origin: %t", k.Patterns, dbg, base.Method, k.Origin, name, value, rec.Status, acao, want || all)
					}
				}
			}
			return nil
		}
		if ps, ok := strings.CutPrefix(k.Via, "api-behind:"); ok {
			var pi int
			fmt.Sscan(ps, &pi)
			presets := []map[string][]string{{"Vary": {"Origin"}}, {"Vary": {"Accept-Encoding", "Origin"}}, {"Vary": {"Origin, Access-Control-Request-Method"}}, {"Vary": {"origin"}}, nil}
			m, err := cors.NewMiddleware(cors.Config{Origins: k.Patterns})
			outer, err2 := cors.NewMiddleware(cors.Config{Origins: []string{"https://outer.example"}})
			if err != nil || err2 != nil {
				return vlib.Failf("configuration rejected: %v %v", err, err2)
			}
			for _, dbg := range []bool{false, true} {
				m.SetDebug(dbg)
				rec := vlib.NewRec()
				for hk, v := range presets[pi] {
					rec.H[hk] = append([]string(nil), v...)
				}
				hh, w := m.Wrap(noopHandler), want
				if presets[pi] == nil {
					hh, w = outer.Wrap(hh), want || k.Origin == "https://outer.example"
				}
				hh.ServeHTTP(rec, vlib.Req{Method: "GET", Hdr: map[string][]string{"Origin": {k.Origin}}}.HTTP())
				acao := rec.H["Access-Control-Allow-Origin"]
				if got := len(acao) == 1 && acao[0] == k.Origin; got != w {
					return vlib.Failf("Origins=%q debug=%t: GET with Origin %q behind %v (nil: an outer middleware for https://outer.example): ACAO=%q, allowed: %t", k.Patterns, dbg, k.Origin, presets[pi], acao, w)
				}
			}
			return nil
		}
		return vlib.Failf("bad case")
	}
	return nil
}

// c01History: NewMiddleware{Origins: [o]}; GET from o; Reconfigure to the list (sequentially, or from inside
// ResponseWriter.Header() of that very request); GET from o again. It reports whether o is allowed at the end.
// If o is not a valid pattern by itself (default port, https with an IP host) there is nothing to do.
// Mode 2: the first configuration lists o as many times as the list is long; the caller then overwrites that very
// slice in place with the list and passes the same Config value to Reconfigure.
var c01HistoryVias = []string{"api-after-reconfigure", "api-reconfigure-in-flight", "api-edit-in-place-and-reconfigure"}

func c01History(list []string, o string, mode int) (allowed bool, err error) {
	inFlight := mode == 1
	first := cors.Config{Origins: []string{o}, ExtraConfig: cors.ExtraConfig{DangerouslyTolerateSubdomainsOfPublicSuffixes: true}}
	if mode == 2 {
		first.Origins = make([]string, len(list))
		for i := range first.Origins {
			first.Origins[i] = o
		}
	}
	prev, perr := cors.NewMiddleware(first)
	if perr != nil {
		return ref.DenotedByAny(list, o) || slices.Contains(list, "*"), nil
	}
	cfg := cors.Config{Origins: append([]string(nil), list...), ExtraConfig: cors.ExtraConfig{DangerouslyTolerateSubdomainsOfPublicSuffixes: true}}
	if mode == 2 {
		copy(first.Origins, list)
		cfg = first
	}
	h := prev.Wrap(noopHandler)
	req := vlib.Req{Method: "GET", Hdr: map[string][]string{"Origin": {o}}}
	if inFlight {
		var rerr error
		w := &reentrantRW{Rec: *vlib.NewRec(), do: func() { rerr = prev.Reconfigure(&cfg) }}
		h.ServeHTTP(w, req.HTTP())
		if rerr != nil {
			return false, fmt.Errorf("list of valid patterns %q rejected by Reconfigure: %v", list, rerr)
		}
	} else {
		h.ServeHTTP(vlib.NewRec(), req.HTTP())
		if rerr := prev.Reconfigure(&cfg); rerr != nil {
			return false, fmt.Errorf("list of valid patterns %q rejected by Reconfigure: %v", list, rerr)
		}
	}
	rec := vlib.NewRec()
	h.ServeHTTP(rec, req.HTTP())
	acao := rec.H["Access-Control-Allow-Origin"]
	return len(acao) == 1 && (acao[0] == o || acao[0] == "*"), nil
}

func c01Test(k c01Case) string {
	want := ref.DenotedByAny(k.Patterns, k.Origin)
	return fmt.Sprintf(`package cors_test

import ("net/http"; "net/http/httptest"; "testing"; "github.com/jub0bs/cors")

func TestC01Replay(t *testing.T) {
	cfg := cors.Config{Origins: %#v}
	cfg.DangerouslyTolerateSubdomainsOfPublicSuffixes = true
	m, err := cors.NewMiddleware(cfg)
	if err != nil { t.Fatal(err) }
	req := httptest.NewRequest("GET", "/", nil)
	req.Header.Set("Origin", %q)
	rec := httptest.NewRecorder()
	m.Wrap(http.NotFoundHandler()).ServeHTTP(rec, req)
	allowed := rec.Header().Get("Access-Control-Allow-Origin") != ""
	if allowed != %t { t.Fatalf("allowed=%%t, want %t", allowed) }
}
`, k.Patterns, k.Origin, want, want)
}

// ---- alphabets ----

var (
	c01L63a     = strings.Repeat("a", 63)
	c01L63b     = strings.Repeat("b", 63)
	c01L63c     = strings.Repeat("c", 63)
	c01Host253  = c01L63a + "." + c01L63b + "." + c01L63c + "." + strings.Repeat("d", 61)
	c01Base251  = c01L63a + "." + c01L63b + "." + c01L63c + "." + strings.Repeat("d", 59)
	c01Scheme64 = "s" + strings.Repeat("x", 63)
)

type c01Family struct {
	name     string
	patterns []string
	probes   []string // filled by c01Probes
}

func c01Families() []*c01Family {
	var f1, f1a, f1b, f2a, f2a1, f2a2, f2b, f2c []string
	for _, h := range []string{"a.b", "xa.b", "b", "c.a.b", "ca.b", "a.bb", "a.b."} {
		f1 = append(f1, "https://"+h, "https://*."+h)
	}
	for _, h := range []string{"a.b", "xa.b", "b", "c.a.b"} {
		f1a = append(f1a, "https://"+h, "https://*."+h)
	}
	for _, h := range []string{"a.b", "ca.b", "a.bb", "a.b.", "c.a.b"} {
		f1b = append(f1b, "https://"+h, "https://*."+h)
	}
	for _, h := range []string{"a.b", "x.a.b"} {
		for _, w := range []string{"", "*."} {
			for _, p := range []string{"", ":81", ":8080", ":*"} {
				f2a = append(f2a, "http://"+w+h+p)
				if h == "a.b" {
					f2a1 = append(f2a1, "http://"+w+h+p)
				}
				if p != ":8080" {
					f2a2 = append(f2a2, "http://"+w+h+p)
				}
			}
		}
	}
	for _, w := range []string{"", "*."} {
		for _, s := range []string{"http", "https", "htt"} {
			for _, p := range []string{"", ":*"} {
				f2b = append(f2b, s+"://"+w+"a.b"+p)
			}
		}
	}
	for _, w := range []string{"", "*."} {
		for _, p := range []string{"", ":1", ":81", ":8080", ":65535", ":*"} {
			f2c = append(f2c, "http://"+w+"a.b"+p)
		}
	}
	// F5: several schemes over one subtree (a node shared by patterns of different schemes, sibling hosts that
	// diverge right in front of a label boundary, wildcard-subdomain + wildcard-port entries on the shared node)
	var f5 []string
	for _, sc := range []string{"http", "https"} {
		f5 = append(f5, sc+"://x.a.b", sc+"://y.a.b:8080", sc+"://*.a.b:*", sc+"://*.a.b")
	}
	// F7: IP literals whose texts share tails that are not label / hextet boundaries
	f7 := []string{"http://[::1]", "http://[fe80::1]", "http://[::21]:9090", "http://[1::1]:*", "http://[fe80::1]:*", "http://1.2.3.4", "http://21.2.3.4", "http://1.2.3.4:*", "http://12.3.4.5", "http://[::1]:9090"}
	// F8: realistic values (long labels with digits and hyphens, Punycode, unusual schemes, five-digit ports)
	f8 := []string{"https://api-v2.example.co.uk", "https://*.example.co.uk", "https://xn--bcher-kva.example:49152", "chrome-extension://abcdefghijklmnop", "app+v1.0://host-1.internal:10000",
		"https://*.host-1.internal:*", "https://example.co.uk:10443", "https://v2.example.co.uk", "https://*.api-v2.example.co.uk:*", "app+v1.0://*.internal"}
	f3 := []string{
		"http://1.2.3.4", "http://127.0.0.1", "http://127.0.0.1:8080", "http://127.0.0.1:*",
		"http://[::1]", "http://[::1]:9090", "http://[::1]:*", "http://[2001:db8::1]",
		"https://a.b.", "https://*.a.b.",
		"https://" + c01Host253, "https://" + c01Host253 + ".", "https://*." + c01Base251,
		c01Scheme64 + "://a.b", "https://a.b:65535",
		c01Scheme64 + "://" + c01Host253 + ".:65535",
	}
	return []*c01Family{
		{name: "F1a-suffix-collisions", patterns: f1a},
		{name: "F1b-suffix-collisions", patterns: f1b},
		{name: "F2a1-ports", patterns: f2a1},
		{name: "F1-suffix-collisions", patterns: f1},
		{name: "F2a2-ports-two-hosts", patterns: f2a2},
		{name: "F2a-ports-two-hosts", patterns: f2a},
		{name: "F2b-schemes", patterns: f2b},
		{name: "F2c-ports", patterns: f2c},
		{name: "F3-literals-extremes", patterns: f3},
		{name: "F5-schemes-over-one-subtree", patterns: f5},
		{name: "F7-ip-literals-sharing-tails", patterns: f7},
		{name: "F8-realistic-values", patterns: f8},
	}
}

// c01ProbesFor derives the near-miss origins of one pattern mechanically.
func c01ProbesFor(pattern string, add func(string)) {
	scheme, host, port, _ := ref.SplitOrigin(pattern)
	host = strings.TrimPrefix(host, "*.")
	hosts := []string{host, "x" + host, "x." + host, "y.x." + host, "x-y." + host}
	if len(host) > 1 {
		hosts = append(hosts, host[1:], host[:len(host)-1])
	}
	if i := strings.IndexByte(host, '.'); i >= 0 && i+1 < len(host) {
		hosts = append(hosts, host[i+1:])
	}
	if strings.HasSuffix(host, ".") {
		hosts = append(hosts, "x."+strings.TrimSuffix(host, "."))
	} else if !strings.HasPrefix(host, "[") {
		hosts = append(hosts, host+".", "x."+host+".")
	}
	schemes := []string{scheme, scheme[:len(scheme)-1], scheme + "s"}
	if scheme == "https" {
		schemes = append(schemes, "http")
	} else {
		schemes = append(schemes, "https")
	}
	ports := []string{"", ":80", ":443", ":8080", ":65535"}
	if port != "" && port != "*" {
		n, _ := strconv.Atoi(port)
		ports = append(ports, ":"+port, ":"+strconv.Itoa(n+1), ":"+strconv.Itoa(n-1))
	}
	for _, s := range schemes {
		if s == "" {
			continue
		}
		for _, h := range hosts {
			for _, p := range ports {
				o := s + "://" + h + p
				if ref.WellFormedOrigin(o) {
					add(o)
				}
			}
		}
	}
}

func c01Probes(patterns []string) []string {
	set := map[string]bool{}
	for _, p := range patterns {
		if p != "*" {
			c01ProbesFor(p, func(o string) { set[o] = true })
		}
	}
	out := make([]string, 0, len(set))
	for o := range set {
		out = append(out, o)
	}
	sort.Strings(out)
	return out
}

// c01SmallHosts: every syntactically valid host over {a,b,.} with at most n bytes (no leading dot, no empty
// label except the root after a trailing dot).
func c01SmallHosts(n int) []string {
	w := vlib.NewWords([]string{"a", "b", "."}, n)
	var out []string
	for i := int64(1); i < w.Count(); i++ {
		h := w.At(i)
		if strings.HasPrefix(h, ".") || strings.Contains(h, "..") || h == "." {
			continue
		}
		out = append(out, h)
	}
	return out
}

// bitset helpers
type bits []uint64

func newBits(n int) bits      { return make(bits, (n+63)/64) }
func (b bits) set(i int)      { b[i/64] |= 1 << (i % 64) }
func (b bits) get(i int) bool { return b[i/64]&(1<<(i%64)) != 0 }

type c01Prepared struct {
	fam      *c01Family
	pats     []origins.Pattern
	probes   []origins.Origin
	probeOK  []bool
	denotes  []bits // [pattern] -> bitset over probes
	failedAt string
}

func c01Prepare(f *c01Family) (*c01Prepared, *vlib.Failure) {
	p := &c01Prepared{fam: f}
	for _, raw := range f.patterns {
		pat, err := origins.ParsePattern(raw)
		if err != nil {
			return nil, vlib.Failf("valid pattern %q rejected by ParsePattern: %v", raw, err)
		}
		p.pats = append(p.pats, pat)
	}
	for _, o := range f.probes {
		po, ok := origins.Parse(o)
		p.probes = append(p.probes, po)
		p.probeOK = append(p.probeOK, ok)
	}
	for _, raw := range f.patterns {
		b := newBits(len(f.probes))
		for j, o := range f.probes {
			if ref.Denotes(raw, o) {
				b.set(j)
			}
		}
		p.denotes = append(p.denotes, b)
	}
	return p, nil
}

// run replays an insertion history on a fresh tree and checks every probe; it returns the dump of the tree
// and the index of the first disagreeing probe (-1 if none).
func (p *c01Prepared) run(hist []uint8) (string, int) {
	var tree origins.Tree
	want := newBits(len(p.probes))
	for _, op := range hist {
		tree.Insert(&p.pats[op])
		for w := range want {
			want[w] |= p.denotes[op][w]
		}
	}
	bad := -1
	for j := range p.probes {
		got := p.probeOK[j] && tree.Contains(&p.probes[j])
		if got != want.get(j) {
			bad = j
			break
		}
	}
	return vlib.Dump(&tree), bad
}

func checkC01(c *vlib.Ctx) (string, string) {
	ck := &Checker[c01Case]{C: c, Judge: c01Judge, Test: c01Test}
	rule := "explicit-state BFS over insertion sequences of each pattern family on the real origins.Tree (states deduplicated by a dump of the tree; to closure or to the stated depth), every transition checked against ref.Denotes for every mechanically derived near-miss probe; stateless cross-check without deduplication; public-API pass over all ordered lists up to the stated length; non-trivial = distinct tree state in which some probe is contained and some is not"
	if ck.Replay() {
		return levelMC, rule
	}
	fams := c01Families()
	maxDup := vlib.Pick(c, 1, 2)
	c.Set("max_reinsertions_per_history", maxDup)
	famInfo := map[string]any{}
	var union []string
	for _, f := range fams {
		f.probes = c01Probes(f.patterns)
		for _, p := range f.patterns {
			if !slices.Contains(union, p) {
				union = append(union, p)
			}
		}
		prep, fl := c01Prepare(f)
		if fl != nil {
			ck.Report(c01Case{f.patterns, "", "tree"}, fl)
			continue
		}
		histToCase := func(hist []uint8, probe int) c01Case {
			k := c01Case{Via: "tree", Origin: f.probes[probe]}
			for _, op := range hist {
				k.Patterns = append(k.Patterns, f.patterns[op])
			}
			return k
		}
		nontrivialSeen := 0
		s := &vlib.SeqSearch{
			NOps:           len(f.patterns),
			MaxTransitions: vlib.Pick(c, 400_000, 8_000_000),
			// Re-inserting a pattern is a self-loop unless the tree keeps multiplicities (today it does for
			// `*.` entries: duplicates pile up in the port lists), which would make the graph infinite; histories
			// are therefore limited to maxDup re-insertions (counted on the shortest history of each state).
			Allow: func(hist []uint8, op uint8) bool {
				dups := 0
				var seen [256]bool
				for _, o := range hist {
					if seen[o] {
						dups++
					}
					seen[o] = true
				}
				if seen[op] {
					dups++
				}
				return dups <= maxDup
			},
			What: "C01 " + f.name,
			Run: func(hist []uint8) (string, *vlib.Failure) {
				key, bad := prep.run(hist)
				if bad >= 0 {
					return key, vlib.Failf("probe %d", bad)
				}
				return key, nil
			},
			OnFail: func(hist []uint8, fl *vlib.Failure) {
				_, bad := prep.run(hist)
				if bad < 0 {
					ck.Report(c01Case{Via: "tree", Patterns: []string{fmt.Sprint(hist)}}, fl) // panic inside Run
					return
				}
				k := histToCase(hist, bad)
				if jf := vlib.Guard(func() *vlib.Failure { return c01Judge(k) }); jf != nil {
					ck.Report(k, jf)
				} else {
					vlib.HarnessError("BFS and judge disagree on %+v", k)
				}
			},
		}
		r := s.BFS(c)
		nontrivialSeen = r.States - 1
		c.States.Add(int64(r.States))
		c.Transitions.Add(int64(r.Transitions))
		c.Evaluations.Add(int64(r.Transitions) * int64(len(f.probes)))
		c.Nontrivial.Add(int64(nontrivialSeen))
		famInfo[f.name] = map[string]any{"patterns": len(f.patterns), "probes": len(f.probes), "states": r.States, "transitions": r.Transitions, "depth": r.Depth, "closed": r.Closed, "new_states_per_level": r.PerLevel}
		if !r.Closed {
			c.Cap(fmt.Sprintf("%s: explored to depth %d (%d states), not to closure", f.name, r.Depth, r.States))
		}
		for _, h := range r.Sample {
			if len(h) > 0 {
				c.Sample(histToCase(h, len(f.probes)/2))
			}
		}
		// stateless cross-check (no deduplication): all sequences up to depth d must give the same verdict
		d := vlib.Pick(c, 2, 3)
		w := vlib.NewWords(make([]string, len(f.patterns)), d)
		c.ParRange(w.Count(), 64, "C01 stateless "+f.name, func(i int64) {
			var tmp [8]int
			syms := w.Syms(i, tmp[:0])
			hist := make([]uint8, len(syms))
			for j, sy := range syms {
				hist[j] = uint8(sy)
			}
			if _, bad := prep.run(hist); bad >= 0 {
				k := histToCase(hist, bad)
				ck.Report(k, vlib.Failf("stateless enumeration: probe %q disagrees", k.Origin))
			}
		})
		c.Transitions.Add(w.Count())
		c.Evaluations.Add(w.Count() * int64(len(f.probes)))
		if c.Stopped() {
			break
		}
	}
	// F4: systematic small scope
	if !c.Stopped() {
		hosts := c01SmallHosts(vlib.Pick(c, 4, 5))
		f4 := &c01Family{name: "F4-small-scope"}
		for _, h := range hosts {
			f4.patterns = append(f4.patterns, "https://"+h, "https://*."+h)
		}
		for _, h := range c01SmallHosts(vlib.Pick(c, 6, 7)) {
			f4.probes = append(f4.probes, "https://"+h)
		}
		prep, fl := c01Prepare(f4)
		if fl != nil {
			ck.Report(c01Case{f4.patterns, "", "tree"}, fl)
		} else {
			depth := vlib.Pick(c, 2, 3)
			np := int64(len(f4.patterns))
			total := int64(1)
			for i := 0; i < depth; i++ {
				total *= np
			}
			seen := map[string]struct{}{}
			_ = seen
			c.ParRange(total, 64, "C01 F4", func(i int64) {
				hist := make([]uint8, depth)
				x := i
				for j := depth - 1; j >= 0; j-- {
					hist[j] = uint8(x % np)
					x /= np
				}
				if _, bad := prep.run(hist); bad >= 0 {
					k := c01Case{Via: "tree", Origin: f4.probes[bad]}
					for _, op := range hist {
						k.Patterns = append(k.Patterns, f4.patterns[op])
					}
					if jf := vlib.Guard(func() *vlib.Failure { return c01Judge(k) }); jf != nil {
						ck.Report(k, jf)
					} else {
						vlib.HarnessError("F4 enumeration and judge disagree on %+v", k)
					}
				}
			})
			c.Transitions.Add(total * int64(depth))
			c.States.Add(total)
			c.Evaluations.Add(total * int64(len(f4.probes)))
			famInfo[f4.name] = map[string]any{"patterns": len(f4.patterns), "probes": len(f4.probes), "sequences": total, "length": depth, "note": "sequences with repeated patterns cover the shorter lengths"}
		}
	}
	// F6: systematic product hosts x {exact,*.} x schemes x ports: every sequence of the stated length
	if !c.Stopped() {
		f6 := &c01Family{name: "F6-product"}
		for _, h := range []string{"a.b", "x.a.b", "y.a.b", "xa.b"} {
			for _, w := range []string{"", "*."} {
				for _, sc := range []string{"http", "https"} {
					for _, pt := range []string{"", ":81", ":*"} {
						f6.patterns = append(f6.patterns, sc+"://"+w+h+pt)
					}
				}
			}
		}
		f6.probes = c01Probes(f6.patterns)
		if prep, fl := c01Prepare(f6); fl != nil {
			ck.Report(c01Case{f6.patterns, "", "tree"}, fl)
		} else {
			depth := vlib.Pick(c, 3, 4)
			np := int64(len(f6.patterns))
			total := int64(1)
			for i := 0; i < depth; i++ {
				total *= np
			}
			c.ParRange(total, 64, "C01 F6", func(i int64) {
				hist := make([]uint8, depth)
				x := i
				for j := depth - 1; j >= 0; j-- {
					hist[j] = uint8(x % np)
					x /= np
				}
				if _, bad := prep.run(hist); bad >= 0 {
					k := c01Case{Via: "tree", Origin: f6.probes[bad]}
					for _, op := range hist {
						k.Patterns = append(k.Patterns, f6.patterns[op])
					}
					if jf := vlib.Guard(func() *vlib.Failure { return c01Judge(k) }); jf != nil {
						ck.Report(k, jf)
					} else {
						vlib.HarnessError("F6 enumeration and judge disagree on %+v", k)
					}
				}
			})
			c.Transitions.Add(total * int64(depth))
			c.States.Add(total)
			c.Evaluations.Add(total * int64(len(f6.probes)))
			famInfo[f6.name] = map[string]any{"patterns": len(f6.patterns), "probes": len(f6.probes), "sequences": total, "length": depth, "note": "stateless; sequences with repeated patterns cover the shorter lengths"}
		}
	}
	// API pass with credentials / private-network access: hosts that the security rules treat specially (localhost and
	// its subdomains, loopback addresses) next to ordinary ones, all ordered lists of one and two patterns
	{
		pats := []string{"http://*.localhost:3000", "http://localhost:3000", "http://*.localhost", "https://*.localhost:*", "http://127.0.0.1:*", "http://[::1]:9", "https://a.b", "https://*.a.b", "http://localhost"}
		probes := []string{"http://app.localhost:3000", "http://api.app.localhost:3000", "http://localhost:3000", "http://app.localhost", "https://app.localhost:8", "http://127.0.0.1:8", "http://127.0.0.2:8", "http://[::1]:9", "http://[::1]:8",
			"https://a.b", "https://x.a.b", "http://x.a.b", "http://localhost", "http://notlocalhost:3000", "http://app.localhost:3001"}
		for _, via := range []string{"api-credentialed", "api-pna", "api"} {
			for i := range pats {
				for j := -1; j < len(pats); j++ {
					list := []string{pats[i]}
					if j >= 0 {
						if j == i {
							continue
						}
						list = append(list, pats[j])
					}
					for _, o := range probes {
						c.Transitions.Add(4)
						ck.Try(c01Case{list, o, via})
					}
				}
			}
		}
	}
	// API pass: all ordered lists over the union of F1-F3 plus "*"
	if !c.Stopped() {
		union = append(union, "*")
		maxLen := vlib.Pick(c, 2, 3)
		var apiUnion []string
		for _, p := range union {
			apiUnion = append(apiUnion, p)
		}
		if c.Thorough() {
			// length-3 lists over the full union would be 5*10^5 lists x ~10^3 probes; keep the families' cores
			apiUnion = nil
			for _, f := range fams {
				lim := 8
				if !slices.Contains([]string{"F1-suffix-collisions", "F2a-ports-two-hosts", "F2b-schemes", "F3-literals-extremes", "F5-schemes-over-one-subtree"}, f.name) {
					continue
				}
				if f.name == "F3-literals-extremes" {
					lim = len(f.patterns)
				}
				for i, p := range f.patterns {
					if i < lim {
						apiUnion = append(apiUnion, p)
					}
				}
			}
			apiUnion = append(apiUnion, "*")
			c.Set("api_pass_note", "length<=3 lists are drawn from the first 8 patterns of F1/F2* plus all of F3 plus '*'; length<=2 lists from the full union are covered by the quick tier")
		}
		probeCache := map[string][]string{}
		for _, p := range apiUnion {
			probeCache[p] = c01Probes([]string{p})
		}
		w := vlib.NewWords(apiUnion, maxLen)
		var apiLists, apiReqs int64
		c.ParRange(w.Count(), 4, "C01 API pass", func(i int64) {
			var tmp [8]int
			syms := w.Syms(i, tmp[:0])
			if len(syms) == 0 {
				return
			}
			list := make([]string, len(syms))
			all := false
			pset := map[string]bool{}
			for j, sy := range syms {
				list[j] = apiUnion[sy]
				if list[j] == "*" {
					all = true
				}
				for _, o := range probeCache[list[j]] {
					pset[o] = true
				}
			}
			if all {
				pset["https://whatever.example"] = true
			}
			cfg := cors.Config{Origins: list, ExtraConfig: cors.ExtraConfig{DangerouslyTolerateSubdomainsOfPublicSuffixes: true}}
			m, err := cors.NewMiddleware(cfg)
			if err != nil {
				ck.Report(c01Case{list, "", "api"}, vlib.Failf("list of valid patterns %q rejected: %v", list, err))
				return
			}
			h := m.Wrap(http.HandlerFunc(func(http.ResponseWriter, *http.Request) {}))
			// earlier requests from every listed pattern taken as an origin were served by a handler that overwrites in
			// place the header slices it can reach (the judge does the same, and from the probe origin too)
			hs := m.Wrap(scribbler{})
			for _, p := range list {
				hs.ServeHTTP(vlib.NewRec(), vlib.Req{Method: "GET", Hdr: map[string][]string{"Origin": {p}}}.HTTP())
			}
			// the same list without the public-suffix switch, when it does not need it (the usual case in practice)
			if m0, err0 := cors.NewMiddleware(cors.Config{Origins: list}); err0 == nil {
				h0 := m0.Wrap(http.HandlerFunc(func(http.ResponseWriter, *http.Request) {}))
				hs0 := m0.Wrap(scribbler{})
				for _, p := range list {
					hs0.ServeHTTP(vlib.NewRec(), vlib.Req{Method: "GET", Hdr: map[string][]string{"Origin": {p}}}.HTTP())
				}
				for o := range pset {
					want := all || ref.DenotedByAny(list, o)
					rec := vlib.NewRec()
					h0.ServeHTTP(rec, vlib.Req{Method: "GET", Hdr: map[string][]string{"Origin": {o}}}.HTTP())
					acao := rec.H["Access-Control-Allow-Origin"]
					if got := len(acao) == 1 && (acao[0] == o || all && acao[0] == "*"); got != want {
						k := c01Case{list, o, "api-no-psl-switch"}
						if jf := vlib.Guard(func() *vlib.Failure { return c01Judge(k) }); jf != nil {
							ck.Report(k, jf)
						} else {
							vlib.HarnessError("API pass and judge disagree on %+v", k)
						}
					}
				}
			}
			for o := range pset {
				want := all || ref.DenotedByAny(list, o)
				rec := vlib.NewRec()
				h.ServeHTTP(rec, vlib.Req{Method: "GET", Hdr: map[string][]string{"Origin": {o}}}.HTTP())
				acao := rec.H["Access-Control-Allow-Origin"]
				got := len(acao) == 1 && (acao[0] == o || all && acao[0] == "*")
				rec2 := vlib.NewRec()
				h.ServeHTTP(rec2, vlib.Req{Method: "OPTIONS", Hdr: map[string][]string{"Origin": {o}, "Access-Control-Request-Method": {"GET"}}}.HTTP())
				pacao := rec2.H["Access-Control-Allow-Origin"]
				pgot := rec2.Status/100 == 2 && len(pacao) == 1 && (pacao[0] == o || all && pacao[0] == "*")
				if got != want || pgot != want || len(acao) > 1 {
					k := c01Case{list, o, "api"}
					if jf := vlib.Guard(func() *vlib.Failure { return c01Judge(k) }); jf != nil {
						ck.Report(k, jf)
					} else {
						vlib.HarnessError("API pass and judge disagree on %+v", k)
					}
				}
			}
			// the same verdicts in debug mode
			m.SetDebug(true)
			for o := range pset {
				want := all || ref.DenotedByAny(list, o)
				rec := vlib.NewRec()
				h.ServeHTTP(rec, vlib.Req{Method: "GET", Hdr: map[string][]string{"Origin": {o}}}.HTTP())
				acao := rec.H["Access-Control-Allow-Origin"]
				got := len(acao) == 1 && (acao[0] == o || all && acao[0] == "*")
				rec2 := vlib.NewRec()
				h.ServeHTTP(rec2, vlib.Req{Method: "OPTIONS", Hdr: map[string][]string{"Origin": {o}, "Access-Control-Request-Method": {"GET"}}}.HTTP())
				pacao := rec2.H["Access-Control-Allow-Origin"]
				pgot := rec2.Status/100 == 2 && len(pacao) == 1 && (pacao[0] == o || all && pacao[0] == "*")
				if got != want || pgot != want || len(acao) > 1 {
					k := c01Case{list, o, "api"}
					if jf := vlib.Guard(func() *vlib.Failure { return c01Judge(k) }); jf != nil {
						ck.Report(k, jf)
					} else {
						vlib.HarnessError("API pass (debug on) and judge disagree on %+v", k)
					}
				}
			}
			m.SetDebug(false)
			// the same verdicts when the probe origin was allowed a moment ago by another configuration
			for o := range pset {
				want := all || ref.DenotedByAny(list, o)
				for vi, via := range c01HistoryVias {
					got, err := c01History(list, o, vi)
					if err != nil || got != want {
						k := c01Case{list, o, via}
						if jf := vlib.Guard(func() *vlib.Failure { return c01Judge(k) }); jf != nil {
							ck.Report(k, jf)
						} else {
							vlib.HarnessError("API history pass and judge disagree on %+v", k)
						}
					}
				}
			}
			c.Evaluations.Add(int64(7 * len(pset)))
			c.Transitions.Add(int64(13 * len(pset)))
		})
		apiLists = w.Count() - 1
		_ = apiReqs
		c.States.Add(apiLists)
		famInfo["API-pass"] = map[string]any{"alphabet": len(apiUnion), "max_list_length": maxLen, "lists": apiLists}
	}
	// the verdict does not depend on any other request header: three small lists x allowed / near-miss origins x
	// every entry of the request-header dictionary, actual request and preflight, both debug modes
	for _, list := range [][]string{{"https://a.b"}, {"https://*.a.b:*", "http://c.d"}, {"*"}} {
		m, err := cors.NewMiddleware(cors.Config{Origins: list})
		if err != nil {
			ck.Report(c01Case{list, "", "api"}, vlib.Failf("list of valid patterns %q rejected: %v", list, err))
			continue
		}
		h := m.Wrap(noopHandler)
		all := slices.Contains(list, "*")
		for _, dbg := range []bool{false, true} {
			m.SetDebug(dbg)
			for _, o := range []string{"https://a.b", "https://x.a.b:8", "http://c.d", "https://evil.b", "https://xa.b"} {
				want := all || ref.DenotedByAny(list, o)
				for _, e := range requestHeaderDictionary {
					for _, base := range []vlib.Req{{Method: "GET", Hdr: map[string][]string{"Origin": {o}}}, {Method: "OPTIONS", Hdr: map[string][]string{"Origin": {o}, "Access-Control-Request-Method": {"GET"}}}} {
						rec := vlib.NewRec()
						h.ServeHTTP(rec, withDictionaryHeader(base, e).HTTP())
						acao := rec.H["Access-Control-Allow-Origin"]
						got := len(acao) == 1 && (acao[0] == o || all && acao[0] == "*") && (base.Method == "GET" || rec.Status/100 == 2)
						c.Evaluations.Add(1)
						if got != want {
							ck.C.Violation(c01Case{list, o, "api-with-header:" + e[0] + ":" + e[1]}, vlib.Failf("Origins=%q debug=%t: %s with Origin %q and the additional request header %s: %s is answered with status %d ACAO=%q, the configuration allows the origin: %t", list, dbg, base.Method, o, e[0], e[1], rec.Status, acao, want),
								func() *vlib.Failure {
									return vlib.Guard(func() *vlib.Failure { return c01Judge(c01Case{list, o, "api-with-header:" + e[0] + ":" + e[1]}) })
								}, "")
						}
					}
				}
			}
		}
	}
	// what is already in the response header map, and another middleware around this one, do not change the verdict:
	// pre-set Vary values; an outer middleware with a disjoint origin list (the verdict for the nest is the union)
	for _, list := range [][]string{{"https://a.b"}, {"https://*.a.b:*", "http://c.d"}} {
		m, err := cors.NewMiddleware(cors.Config{Origins: list})
		outer, err2 := cors.NewMiddleware(cors.Config{Origins: []string{"https://outer.example"}})
		if err != nil || err2 != nil {
			continue
		}
		h := m.Wrap(noopHandler)
		nest := outer.Wrap(h)
		for _, dbg := range []bool{false, true} {
			m.SetDebug(dbg)
			for _, o := range []string{"https://a.b", "https://x.a.b:8", "http://c.d", "https://evil.b", "https://xa.b", "https://outer.example"} {
				for pi, preset := range []map[string][]string{{"Vary": {"Origin"}}, {"Vary": {"Accept-Encoding", "Origin"}}, {"Vary": {"Origin, Access-Control-Request-Method"}}, {"Vary": {"origin"}}, nil} {
					rec := vlib.NewRec()
					for k, v := range preset {
						rec.H[k] = append([]string(nil), v...)
					}
					hh, want := h, ref.DenotedByAny(list, o)
					if preset == nil {
						hh, want = nest, want || o == "https://outer.example"
					}
					hh.ServeHTTP(rec, vlib.Req{Method: "GET", Hdr: map[string][]string{"Origin": {o}}}.HTTP())
					acao := rec.H["Access-Control-Allow-Origin"]
					c.Evaluations.Add(1)
					if got := len(acao) == 1 && acao[0] == o; got != want {
						via := fmt.Sprintf("api-behind:%d", pi)
						ck.C.Violation(c01Case{list, o, via}, vlib.Failf("Origins=%q debug=%t: GET with Origin %q behind %v (nil: an outer middleware for https://outer.example): ACAO=%q, allowed: %t", list, dbg, o, preset, acao, want), nil, "")
					}
				}
			}
		}
	}
	// every port number: as an origin against an any-port pattern and against one discrete port, and as a pattern
	// that must match itself (and nothing else among its neighbours)
	{
		var tree origins.Tree
		for _, raw := range []string{"https://a.b:*", "http://a.b:8080", "ab://*.c.d:*", "ab://c.d:70"} {
			p, err := origins.ParsePattern(raw)
			if err != nil {
				ck.Report(c01Case{[]string{raw}, raw, "tree"}, vlib.Failf("valid pattern %q rejected: %v", raw, err))
				return levelMC, rule
			}
			tree.Insert(&p)
		}
		pats := []string{"https://a.b:*", "http://a.b:8080", "ab://*.c.d:*", "ab://c.d:70"}
		c.ParRange(65535, 1024, "C01 port sweep", func(i int64) {
			port := i + 1
			for _, o := range []string{fmt.Sprintf("https://a.b:%d", port), fmt.Sprintf("http://a.b:%d", port), fmt.Sprintf("ab://x.c.d:%d", port), fmt.Sprintf("ab://c.d:%d", port), fmt.Sprintf("https://x.a.b:%d", port)} {
				po, ok := origins.Parse(o)
				if got, want := ok && tree.Contains(&po), ref.DenotedByAny(pats, o); got != want {
					ck.Report(c01Case{pats, o, "tree"}, vlib.Failf("port sweep: Contains(%q)=%t (parsed=%t), the patterns %q denote it: %t", o, got, ok, pats, want))
				}
			}
			self := fmt.Sprintf("https://e.f:%d", port)
			if port == 443 {
				self = fmt.Sprintf("http://e.f:%d", port)
			}
			sp, err := origins.ParsePattern(self)
			if err != nil {
				ck.Report(c01Case{[]string{self}, self, "tree"}, vlib.Failf("port sweep: valid pattern %q rejected: %v", self, err))
				return
			}
			var t2 origins.Tree
			t2.Insert(&sp)
			for _, o := range []string{self, fmt.Sprintf("https://e.f:%d", port%65535+1), "https://e.f"} {
				po, ok := origins.Parse(o)
				if got, want := ok && t2.Contains(&po), ref.DenotedByAny([]string{self}, o); got != want {
					ck.Report(c01Case{[]string{self}, o, "tree"}, vlib.Failf("port sweep: pattern %q, Contains(%q)=%t, want %t", self, o, got, want))
				}
			}
		})
		c.States.Add(65535)
		c.Transitions.Add(65535 * 8)
		famInfo["port-sweep"] = map[string]any{"ports": 65535, "probes_per_port": 8}
	}
	c.Set("families", famInfo)
	return levelMC, rule
}

func init() { registry["C01"] = checkC01 }
