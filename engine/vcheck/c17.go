package main

import (
	"fmt"
	"math"
	"net/http"
	"strings"
	"time"

	"github.com/jub0bs/cors"
	"github.com/jub0bs/cors/cfgerrors"
	"github.com/jub0bs/cors/internal/zzverif/vlib"
)

// C17 — no input can crash configuration or request handling. Oracle: no panic (Checker.Try recovers and
// turns a panic into a violation with the stack).

type c17Big struct {
	Header string `json:"header"`
	Unit   string `json:"unit"`
	Count  int    `json:"count"` // Unit repeated Count times per line
	Lines  int    `json:"lines"`
}

type c17Case struct {
	Kind   string   `json:"kind"`          // "config" | "request" | "history"
	Ops    []string `json:"ops,omitempty"` // history: operations of engine/vcheck/c09.go plus "Config()" and "request"
	Cfg    CfgLit   `json:"config"`
	NilCfg bool     `json:"nil_config,omitempty"`
	Debug  bool     `json:"debug,omitempty"`
	Req    vlib.Req `json:"request,omitempty"`
	Big    *c17Big  `json:"big,omitempty"`
	// Preset > 0: what the response header map holds before the middleware runs (c17Presets)
	Preset int `json:"response_header_map_before,omitempty"`
}

// c17WrittenNames: the response-header names a CORS middleware writes.
var c17WrittenNames = []string{"Vary", "Access-Control-Allow-Origin", "Access-Control-Allow-Credentials", "Access-Control-Expose-Headers", "Access-Control-Allow-Methods", "Access-Control-Allow-Headers", "Access-Control-Max-Age", "Access-Control-Allow-Private-Network"}

// c17Presets: states of the response header map that earlier links of a handler chain leave behind (a filter that
// removed every value, a recycled map, keys written without canonicalisation).
var c17Presets = []func(h http.Header){nil,
	func(h http.Header) {
		for _, n := range c17WrittenNames {
			h[n] = nil
		}
	},
	func(h http.Header) {
		for _, n := range c17WrittenNames {
			h[n] = []string{}
		}
	},
	func(h http.Header) {
		for _, n := range c17WrittenNames {
			h[n] = make([]string, 0, 4)
		}
	},
	func(h http.Header) {
		for _, n := range c17WrittenNames {
			h[n] = []string{""}
		}
	},
	func(h http.Header) {
		for _, n := range c17WrittenNames {
			h[n] = []string{"*"}
		}
	},
	func(h http.Header) {
		for _, n := range c17WrittenNames {
			h[n] = []string{"a", "", "b"}
		}
	},
	func(h http.Header) {
		for _, n := range c17WrittenNames {
			h[strings.ToLower(n)] = []string{"lower"}
			h[strings.ToUpper(n)] = nil
		}
	},
	func(h http.Header) { h["Vary"] = nil },
	func(h http.Header) { h["Vary"] = []string{} },
	func(h http.Header) { h["Vary"], h["Access-Control-Allow-Origin"] = []string{"*"}, nil },
}

func c17Judge(k c17Case) *vlib.Failure {
	switch k.Kind {
	case "config":
		if k.NilCfg {
			m := new(cors.Middleware)
			_ = m.Reconfigure(nil)
			_ = m.Config()
			m.SetDebug(true)
			for range cfgerrors.All(nil) {
			}
			return nil
		}
		cfg := k.Cfg.Config()
		m, err := cors.NewMiddleware(cfg)
		total := 0
		for e := range cfgerrors.All(err) {
			total++
			if e != nil {
				_ = e.Error()
			}
		}
		// a consumer may stop at any position (a missed early exit makes the Go runtime panic)
		for stop := 1; err != nil && stop <= total; stop++ {
			n := 0
			for range cfgerrors.All(err) {
				n++
				if n == stop {
					break
				}
			}
		}
		m2 := new(cors.Middleware)
		err2 := m2.Reconfigure(&cfg)
		for e := range cfgerrors.All(err2) {
			if e != nil {
				_ = e.Error()
			}
		}
		if err == nil {
			c1 := m.Config()
			_ = m.Reconfigure(c1)
			_ = m2.Config()
			// one request of each kind through the freshly built middleware
			h := m.Wrap(http.HandlerFunc(func(http.ResponseWriter, *http.Request) {}))
			o := "https://a.b"
			if len(k.Cfg.Origins) > 0 {
				o = k.Cfg.Origins[0]
			}
			for _, r := range []vlib.Req{
				{Method: "GET", Hdr: map[string][]string{"Origin": {o}}},
				{Method: "OPTIONS", Hdr: map[string][]string{"Origin": {o}, "Access-Control-Request-Method": {"PUT"}, "Access-Control-Request-Headers": {"a,b"}}},
				{Method: "GET"},
			} {
				h.ServeHTTP(vlib.NewRec(), r.HTTP())
			}
		}
	case "request":
		m, err := cors.NewMiddleware(k.Cfg.Config())
		if err != nil {
			return vlib.Failf("configuration of the C17 alphabet rejected: %v", err)
		}
		m.SetDebug(k.Debug)
		req := k.Req
		if k.Big != nil {
			hdr := map[string][]string{}
			for kk, v := range req.Hdr {
				hdr[kk] = v
			}
			line := strings.Repeat(k.Big.Unit, k.Big.Count)
			lines := make([]string, k.Big.Lines)
			for i := range lines {
				lines[i] = line
			}
			hdr[k.Big.Header] = lines
			req.Hdr = hdr
		}
		rec := vlib.NewRec()
		if k.Preset > 0 {
			c17Presets[k.Preset](rec.H)
		}
		m.Wrap(http.HandlerFunc(func(http.ResponseWriter, *http.Request) {})).ServeHTTP(rec, req.HTTP())
	case "reentrant":
		cfg := k.Cfg.Config()
		m, err := cors.NewMiddleware(cfg)
		if err != nil {
			return vlib.Failf("configuration of the C17 alphabet rejected: %v", err)
		}
		m.SetDebug(k.Debug)
		calls := []func(){func() { m.Reconfigure(m.Config()) }, func() { m.SetDebug(!k.Debug) }, func() { c2 := k.Cfg.Config(); m.Reconfigure(&c2) }, func() { _ = m.Config() }, func() { m.Reconfigure(nil) }}
		for ci, call := range calls {
			for _, where := range []string{"handler", "Header()", "WriteHeader()"} {
				if reentrantDeadlock.Load() {
					return vlib.Failf("a control call made from inside a request does not return (deadlock established earlier in this run)")
				}
				done := make(chan *vlib.Failure, 1)
				go func() {
					done <- vlib.Guard(func() *vlib.Failure {
						w := &reentrantRW{Rec: *vlib.NewRec()}
						var h http.Handler = noopHandler
						switch where {
						case "handler":
							h = http.HandlerFunc(func(http.ResponseWriter, *http.Request) { call() })
						case "Header()":
							w.do = call
						}
						var rw http.ResponseWriter = w
						if where == "WriteHeader()" {
							rw = &writeHeaderHook{reentrantRW: w, do: call}
						}
						m.Wrap(h).ServeHTTP(rw, k.Req.HTTP())
						return nil
					})
				}()
				select {
				case f := <-done:
					if f != nil {
						return f
					}
				case <-time.After(20 * time.Second):
					reentrantDeadlock.Store(true)
					return vlib.Failf("control call #%d made from inside %s of a request (%s) did not return within 20 s: the wrapped handler never returns", ci, where, k.Req)
				}
				if m.Config() == nil {
					c2 := k.Cfg.Config()
					m.Reconfigure(&c2)
					m.SetDebug(k.Debug)
				}
			}
		}
	case "traffic":
		cfg := k.Cfg.Config()
		m, err := cors.NewMiddleware(cfg)
		if err != nil {
			return vlib.Failf("configuration of the C17 alphabet rejected: %v", err)
		}
		m.SetDebug(k.Debug)
		h := m.Wrap(http.HandlerFunc(func(http.ResponseWriter, *http.Request) {}))
		for i, r := range trafficSequence(300, "https://t%d.a.b", "https://t%d.xa.b") {
			if f := vlib.Guard(func() *vlib.Failure { h.ServeHTTP(vlib.NewRec(), r.HTTP()); return nil }); f != nil {
				return vlib.Failf("request #%d of the traffic sequence (%s): %s", i+1, r, f.Detail)
			}
		}
	case "history":
		if f := smEnsure(); f != nil {
			return f
		}
		for _, init := range []string{"new(A)", "zero"} {
			m, _, err := smInit(init)
			if err != nil {
				return vlib.Failf("configuration A rejected: %v", err)
			}
			h := m.Wrap(http.HandlerFunc(func(http.ResponseWriter, *http.Request) {}))
			for _, op := range k.Ops {
				switch op {
				case "Config()":
					_ = m.Config()
				case "request":
					h.ServeHTTP(vlib.NewRec(), smSuite[len(smSuite)/2].HTTP())
					h.ServeHTTP(vlib.NewRec(), smSuite[len(smSuite)-1].HTTP())
				default:
					_ = smApply(m, op)
				}
			}
		}
	default:
		return vlib.Failf("bad case")
	}
	return nil
}

// writeHeaderHook performs a call from inside WriteHeader (once).
type writeHeaderHook struct {
	*reentrantRW
	do func()
}

func (w *writeHeaderHook) WriteHeader(code int) {
	if f := w.do; f != nil {
		w.do = nil
		f()
	}
	w.reentrantRW.WriteHeader(code)
}

func c17Test(k c17Case) string {
	return fmt.Sprintf(`package cors_test

// kind=%s config=%s debug=%t request=%s big=%+v
// Build the middleware (NewMiddleware and Reconfigure on the zero value), call Config(), range over
// cfgerrors.All(err), serve the request: nothing may panic.
`, k.Kind, k.Cfg.GoLiteral(), k.Debug, k.Req, k.Big)
}

func checkC17(c *vlib.Ctx) (string, string) {
	ck := &Checker[c17Case]{C: c, Judge: c17Judge, Test: c17Test, Watchdog: 20 * time.Second}
	rule := "configuration strings P.Sigma^{<=n} for every list field (prefixes covering every parser state, byte classes incl. NUL/0xFF/UTF-8), pairs over a pool of edge-case patterns, extreme integers, nil/empty lists and nil config; requests: Origin / ACRM / ACRH / ACRPN values from P.Sigma^{<=n}, zero-valued and multi-valued keys, sizes up to 1 MiB and 100 000 elements or lines, under 6 configurations x debug; oracle: no panic; non-trivial = distinct request case carrying at least one Origin value (it reaches the origin parser and the tree)"
	if ck.Replay() {
		return levelMC, rule
	}
	valid := CfgLit{Origins: []string{"https://a.b"}, Methods: []string{"PUT"}, RequestHeaders: []string{"X-A"}, ResponseHeaders: []string{"X-R"}, TolPSL: true}
	tryCfg := func(l CfgLit) {
		c.States.Add(1)
		c.Transitions.Add(4)
		ck.Try(c17Case{Kind: "config", Cfg: l})
	}
	ck.Try(c17Case{Kind: "config", NilCfg: true})
	// (a) one string per list field
	n := vlib.Pick(c, 3, 4)
	osigma := []string{"a", ".", ":", "/", "*", "[", "]", "0", "1", "9", "-", "_", "A", "é", "\x00", "\xff", " ", "%", "@"}
	oprefix := []string{"", "a", "a:", "a:/", "a://", "a://*", "a://*.", "a://[", "a://[]", "a://[:", "a://x:", "a://x.", "https://a.b:", "http://[::1]", "a://1.", "a://1.2.3.", "*", "https://xn--"}
	ow := vlib.NewWords(osigma, n)
	c.ParRange(int64(len(oprefix))*ow.Count(), 64, "C17 origin strings", func(i int64) {
		l := valid
		v := oprefix[i/ow.Count()] + ow.At(i%ow.Count())
		l.Origins = []string{v}
		tryCfg(l)
		if i%7 == 0 {
			l.Origins = []string{"https://*.a.b", v, "https://a.b"}
			tryCfg(l)
		}
		c.SampleAt(i+1, func() any { return c17Case{Kind: "config", Cfg: l} })
	})
	nsigma := []string{"a", "A", "*", " ", ",", ":", "-", "\x00", "\xff", "é", "(", "1"}
	nprefix := []string{"", "x-", "sec-", "proxy-", "access-control-", "authorization", "GET", "connect"}
	nw := vlib.NewWords(nsigma, n)
	c.ParRange(int64(len(nprefix))*nw.Count()*3, 64, "C17 name strings", func(i int64) {
		field := i % 3
		j := i / 3
		v := nprefix[j/nw.Count()] + nw.At(j%nw.Count())
		l := valid
		switch field {
		case 0:
			l.Methods = []string{v, "PUT", v}
		case 1:
			l.RequestHeaders = []string{"*", v, "Authorization"}
			if j%2 == 0 {
				l.RequestHeaders = []string{v}
			}
		case 2:
			l.ResponseHeaders = []string{v, "X-R"}
		}
		tryCfg(l)
	})
	// (a') long names in every letter-case pattern (conversion buffers, length-indexed tables): sizes around every
	// power of two up to 64 KiB, the convertible letter first, last, everywhere, alternating
	for _, sz := range []int{1, 2, 15, 16, 17, 31, 32, 33, 63, 64, 65, 66, 127, 128, 129, 255, 256, 257, 1023, 1024, 1025, 4096, 65535, 65536, 65537} {
		fill := func(c byte) string { return strings.Repeat(string(c), sz-1) }
		alt := func(a, b string) string { return strings.Repeat(a+b, sz/2+1)[:sz] }
		for _, v := range []string{fill('x') + "A", "A" + fill('x'), fill('X') + "a", "a" + fill('X'), strings.Repeat("X", sz), strings.Repeat("x", sz), alt("x", "Y"), alt("X", "y"), alt("-", "Z"), fill('x') + "\xff", fill('X') + "é"} {
			for field := 0; field < 4; field++ {
				l := valid
				switch field {
				case 0:
					l.Methods = []string{v, "PUT"}
				case 1:
					l.RequestHeaders = []string{"X-A", v}
				case 2:
					l.ResponseHeaders = []string{v}
				case 3:
					l.Origins = []string{"https://" + v, v + "://a.b", "https://a.b:" + v}
				}
				tryCfg(l)
			}
		}
	}
	// (a'') every name of the C04/C05 tables alone in its list (a list may become empty after silent filtering)
	for _, a := range c04MA {
		l := valid
		l.Methods = []string{a.Value}
		tryCfg(l)
	}
	for _, a := range c04QA {
		l := valid
		l.RequestHeaders = []string{a.Value}
		tryCfg(l)
		l.RequestHeaders = []string{a.Value, a.Value}
		tryCfg(l)
	}
	for _, a := range c04RA {
		for _, cred := range []bool{false, true} {
			l := valid
			l.Credentialed = cred
			l.ResponseHeaders = []string{a.Value}
			tryCfg(l)
			l.ResponseHeaders = []string{a.Value, "content-type", a.Value}
			tryCfg(l)
		}
	}
	for _, a := range c04OA {
		for sw := 0; sw < 8; sw++ {
			l := valid
			l.Credentialed, l.PNA, l.TolInsecure, l.TolPSL = sw&1 != 0, sw&2 != 0, sw&4 != 0, sw&4 != 0
			l.Origins = []string{a.Value}
			tryCfg(l)
		}
	}
	// (b) pairs and triples over a pool of edge-case patterns (tree insertion with unusual hosts)
	pool := []string{"*", "a://a", "a://a.", "a://*.a", "a://*.a.", "a://a:1", "a://a:*", "a://*.a:*", "a://b.a", "a://ba", "a://1.2.3.4", "a://[::1]", "a://[::]", "a://[1::]:*", "b://a", "a://" + c01Host253, "a://" + c01Host253 + ".", "a://*." + c01Base251, c01Scheme64 + "://a:65535", "a://xn--a", "a://a-", "a://0", "a://0.a", "a://a.0", "a://_", "", "a://", "null"}
	pw := vlib.NewWords(pool, 3)
	c.ParRange(pw.Count(), 64, "C17 pattern lists", func(i int64) {
		var tmp [4]int
		l := valid
		l.Origins = nil
		for _, s := range pw.Syms(i, tmp[:0]) {
			l.Origins = append(l.Origins, pool[s])
		}
		tryCfg(l)
	})
	// (c) integers, empty and nil lists
	for _, ma := range []int{0, -1, -2, 1, 86400, 86401, math.MinInt, math.MaxInt, math.MinInt64 + 1, 1 << 31, -(1 << 31)} {
		for _, st := range []int{0, 200, 299, 300, 199, -1, math.MinInt, math.MaxInt, 255 + 200, 256 + 200, 1<<32 + 204} {
			for sw := 0; sw < 32; sw++ {
				l := valid
				l.MaxAge, l.Status = ma, st
				l.Credentialed, l.PNA, l.PNANoCORS, l.TolInsecure, l.TolPSL = sw&1 != 0, sw&2 != 0, sw&4 != 0, sw&8 != 0, sw&16 != 0
				tryCfg(l)
				l.Origins, l.Methods, l.RequestHeaders, l.ResponseHeaders = []string{}, []string{}, []string{}, []string{}
				tryCfg(l)
			}
		}
	}
	// (c') every subset of simultaneous defects (list fields yield nested joins, integers plain leaves): the error
	// tree is then traversed with a consumer stopping at every position (see c17Judge)
	for mask := 0; mask < 1<<8; mask++ {
		l := valid
		if mask&1 != 0 {
			l.Origins = []string{"https://example.com/", "https://a.b"}
		}
		if mask&2 != 0 {
			l.Origins = append(append([]string{}, l.Origins...), "null", "https://a.b:0")
		}
		if mask&4 != 0 {
			l.Methods = []string{"CONNECT", "PUT", "bad method"}
		}
		if mask&8 != 0 {
			l.RequestHeaders = []string{"Cookie", "X-A", "bad name"}
		}
		if mask&16 != 0 {
			l.ResponseHeaders = []string{"Set-Cookie", "X-R"}
		}
		if mask&32 != 0 {
			l.MaxAge = -2
		}
		if mask&64 != 0 {
			l.Status = 300
		}
		if mask&128 != 0 {
			l.PNA, l.PNANoCORS, l.Credentialed = true, true, true
			l.Origins = append(append([]string{}, l.Origins...), "*", "http://insecure.example")
		}
		tryCfg(l)
	}
	// (c'') all 32 switch combinations x every list of <=2 labelled origin atoms (one pattern may collect several
	// incompatibilities at once) x two response-header atoms
	ol := idxLists(len(c04OA), 2)
	cp := vlib.Product{Sizes: []int{32, len(ol), 2}}
	sws := allSwitches()
	c.ParRange(cp.Count(), 64, "C17 switch x origin-atom lists", func(i int64) {
		var tmp [4]int
		ix := cp.At(i, tmp[:0])
		k := c04Make(sws[ix[0]], ol[ix[1]], []int{0}, []int{0, 2}, []int{[]int{0, 2}[ix[2]]}, 600, 201, "new")
		tryCfg(k.Cfg)
	})
	// (c3) every history of up to 4 [5] API calls (SetDebug, Reconfigure incl. nil / invalid / Config(), Config(), requests)
	hops := append(append([]string{}, smOps...), "Config()", "request")
	hw := vlib.NewWords(hops, vlib.Pick(c, 4, 5))
	c.ParRange(hw.Count(), 64, "C17 API histories", func(i int64) {
		var tmp [8]int
		k := c17Case{Kind: "history"}
		for _, sy := range hw.Syms(i, tmp[:0]) {
			k.Ops = append(k.Ops, hops[sy])
		}
		c.States.Add(1)
		c.Transitions.Add(int64(2 * len(k.Ops)))
		ck.Try(k)
	})
	// (d) requests
	disc := []string{"https://a.b", "https://*.a.b", "https://b.a:*", "http://1.2.3.4", "http://[::1]", "ab://c"}
	rcfgs := []CfgLit{
		{Origins: []string{"*"}},
		{Origins: []string{"*"}, Methods: []string{"*"}, RequestHeaders: []string{"*", "Authorization"}, ResponseHeaders: []string{"*"}},
		{Origins: disc, TolPSL: true},
		{Origins: disc, Methods: []string{"PUT"}, RequestHeaders: []string{"X-A", "X-B", "Authorization"}, ResponseHeaders: []string{"X-R"}, MaxAge: 30, TolPSL: true},
		{Origins: disc, Credentialed: true, Methods: []string{"*"}, RequestHeaders: []string{"*"}, TolInsecure: true, TolPSL: true, PNA: true},
		{Origins: disc, Credentialed: true, Methods: []string{"PUT"}, RequestHeaders: []string{"X-A"}, TolInsecure: true, TolPSL: true, PNANoCORS: true, Status: 299},
	}
	tryReq := func(r vlib.Req, big *c17Big) {
		for _, l := range rcfgs {
			for _, d := range []bool{false, true} {
				c.Transitions.Add(1)
				ck.Try(c17Case{Kind: "request", Cfg: l, Debug: d, Req: r, Big: big})
			}
		}
		c.States.Add(1)
		if len(r.Hdr["Origin"]) > 0 {
			c.Nontrivial.Add(1)
		}
	}
	rsigma := []string{"a", "x", ".", ":", "/", "[", "]", "0", "8", "A", "*", ",", " ", "\t", "\x00", "\xc3"}
	rw := vlib.NewWords(rsigma, vlib.Pick(c, 2, 3))
	rprefix := []string{"", "https://", "https://a.b", "https://a.b:", "http://[", "http://[::1]", "x-a", "PUT", "true"}
	hdrNames := []string{"Origin", "Access-Control-Request-Method", "Access-Control-Request-Headers", "Access-Control-Request-Private-Network"}
	total := int64(len(rprefix)) * rw.Count() * int64(len(hdrNames))
	c.ParRange(total, 16, "C17 request strings", func(i int64) {
		hn := hdrNames[i%int64(len(hdrNames))]
		j := i / int64(len(hdrNames))
		v := rprefix[j/rw.Count()] + rw.At(j%rw.Count())
		base := map[string][]string{"Origin": {"https://a.b"}, "Access-Control-Request-Method": {"PUT"}, "Access-Control-Request-Headers": {"x-a"}}
		for _, vals := range [][]string{{v}, {v, v}, {"https://a.b", v}} {
			h := map[string][]string{}
			for kk, vv := range base {
				h[kk] = vv
			}
			h[hn] = vals
			tryReq(vlib.Req{Method: "OPTIONS", Hdr: h}, nil)
			tryReq(vlib.Req{Method: "GET", Hdr: h}, nil)
		}
	})
	// unusual states of the response header map before the middleware runs, for every kind of request
	for _, r := range []vlib.Req{{Method: "GET"}, {Method: "OPTIONS"}, {Method: "GET", Hdr: map[string][]string{"Origin": {"https://a.b"}}}, {Method: "GET", Hdr: map[string][]string{"Origin": {"https://denied.example"}}},
		{Method: "OPTIONS", Hdr: map[string][]string{"Origin": {"https://a.b"}}},
		{Method: "OPTIONS", Hdr: map[string][]string{"Origin": {"https://a.b"}, "Access-Control-Request-Method": {"PUT"}, "Access-Control-Request-Headers": {"x-a"}}},
		{Method: "OPTIONS", Hdr: map[string][]string{"Origin": {"https://a.b"}, "Access-Control-Request-Method": {"PUT"}, "Access-Control-Request-Headers": {"x-a"}, "Access-Control-Request-Private-Network": {"true"}}},
		{Method: "OPTIONS", Hdr: map[string][]string{"Origin": {"https://a.b"}, "Access-Control-Request-Method": {"DELETE"}}},
		{Method: "OPTIONS", Hdr: map[string][]string{"Origin": {"https://a.b"}, "Access-Control-Request-Method": {"PUT"}, "Access-Control-Request-Headers": {"x-zz"}}},
		{Method: "OPTIONS", Hdr: map[string][]string{"Origin": {"https://denied.example"}, "Access-Control-Request-Method": {"PUT"}}}} {
		for p := 1; p < len(c17Presets); p++ {
			for _, l := range rcfgs {
				for _, d := range []bool{false, true} {
					c.Transitions.Add(1)
					ck.Try(c17Case{Kind: "request", Cfg: l, Debug: d, Req: r, Preset: p})
				}
			}
			c.States.Add(1)
		}
	}
	// long traffic: 300 distinct allowed origins and 300 near misses coming back at several distances, on one middleware
	// per configuration kind and debug mode (fixed-size memos and rings overflow only after they have filled up)
	for _, l := range []CfgLit{
		{Origins: []string{"https://*.a.b", "https://a.b"}, Methods: []string{"PUT"}, RequestHeaders: []string{"X-A"}, TolPSL: true},
		{Origins: []string{"https://*.a.b:*", "http://*.a.b"}, Credentialed: true, Methods: []string{"*"}, RequestHeaders: []string{"*"}, ResponseHeaders: []string{"X-R"}, TolPSL: true, TolInsecure: true},
		{Origins: []string{"*"}, PNA: false, Methods: []string{"PUT"}, RequestHeaders: []string{"*", "Authorization"}},
	} {
		for _, dbg := range []bool{false, true} {
			k := c17Case{Kind: "traffic", Cfg: l, Debug: dbg}
			c.States.Add(1)
			c.Transitions.Add(int64(len(trafficSequence(300, "https://t%d.a.b", "https://t%d.xa.b"))))
			ck.Try(k)
		}
	}
	// re-entrant control calls: the wrapped handler or the ResponseWriter administers the middleware it sits behind
	for _, l := range []CfgLit{{Origins: []string{"https://a.b"}, Methods: []string{"PUT"}}, {Origins: []string{"*"}, RequestHeaders: []string{"*"}}} {
		for _, dbg := range []bool{false, true} {
			for _, r := range []vlib.Req{{Method: "GET"}, {Method: "GET", Hdr: map[string][]string{"Origin": {"https://a.b"}}}, {Method: "OPTIONS", Hdr: map[string][]string{"Origin": {"https://a.b"}, "Access-Control-Request-Method": {"PUT"}}}, {Method: "OPTIONS", Hdr: map[string][]string{"Origin": {"https://a.b"}}}} {
				c.States.Add(1)
				c.Transitions.Add(15)
				ck.Try(c17Case{Kind: "reentrant", Cfg: l, Debug: dbg, Req: r})
			}
		}
	}
	// multiplicities and extreme sizes
	for _, m := range []string{"GET", "OPTIONS", "", "options", "\x00"} {
		for _, hn := range hdrNames {
			for _, vals := range [][]string{{}, {""}, {"", ""}, nil} {
				h := map[string][]string{"Origin": {"https://a.b"}, "Access-Control-Request-Method": {"PUT"}}
				if vals != nil {
					h[hn] = vals
				} else {
					delete(h, hn)
				}
				tryReq(vlib.Req{Method: m, Hdr: h}, nil)
			}
		}
	}
	bigs := []c17Big{}
	for _, hn := range hdrNames {
		for _, unit := range []string{"a", ",", "x-a,", " ", "x-a, ", "https://a.b", ":", "[", "\xff"} {
			for _, sz := range [][2]int{{1 << 20, 1}, {100000, 1}, {1, 100000}, {17, 17}, {4096, 64}} {
				if len(unit)*sz[0] > 1<<21 {
					continue
				}
				bigs = append(bigs, c17Big{hn, unit, sz[0], sz[1]})
			}
		}
	}
	c.ParRange(int64(len(bigs)), 1, "C17 big requests", func(i int64) {
		b := bigs[i]
		base := map[string][]string{"Origin": {"https://a.b"}, "Access-Control-Request-Method": {"PUT"}, "Access-Control-Request-Headers": {"x-a"}}
		tryReq(vlib.Req{Method: "OPTIONS", Hdr: base}, &b)
		tryReq(vlib.Req{Method: "GET", Hdr: base}, &b)
	})
	c.Set("families", map[string]any{"origin_strings": int64(len(oprefix)) * ow.Count(), "name_strings": int64(len(nprefix)) * nw.Count() * 3, "pattern_lists": pw.Count(), "request_strings": total * 6, "big_requests": len(bigs) * 2, "max_suffix_len": n})
	return levelMC, rule
}

func init() { registry["C17"] = checkC17 }
