package main

import (
	"fmt"
	"net/http"
	"strings"

	"github.com/jub0bs/cors"
	"github.com/jub0bs/cors/internal/headers"
	"github.com/jub0bs/cors/internal/util"
	"github.com/jub0bs/cors/internal/zzverif/ref"
	"github.com/jub0bs/cors/internal/zzverif/vlib"
)

// C14 — requested-header lists: sound for any bytes, complete for browsers.

type c14Case struct {
	Set   []string `json:"set"`
	Lines []string `json:"lines"`
	Via   string   `json:"via"` // "internal" (headers.Check) or "api" (preflight through the public API, debug off)
	// Ctx: the other fields of the configuration on the public-API routes (c14Contexts); the header-list rule is the
	// same in all of them because the list is discrete
	Ctx int `json:"config_context,omitempty"`
}

func c14Set(names []string) util.SortedSet {
	var s util.SortedSet
	for _, n := range names {
		s.Add(n)
	}
	return s
}

// c14Sound is the soundness corollary, stated without the reference model: every non-empty element of an
// approved list, trimmed of whitespace, is an allowed name.
func c14Sound(set []string, lines []string) (string, bool) {
	for _, l := range lines {
		for _, el := range strings.Split(l, ",") {
			n := strings.Trim(el, " \t")
			if n == "" {
				continue
			}
			ok := false
			for _, a := range set {
				if a == n {
					ok = true
				}
			}
			if !ok {
				return n, false
			}
		}
	}
	return "", true
}

func c14Judge(k c14Case) *vlib.Failure {
	want := ref.ACRH(k.Set, k.Lines)
	switch k.Via {
	case "internal":
		got := headers.Check(c14Set(k.Set), k.Lines)
		if got != want {
			return vlib.Failf("headers.Check(%q, %q) = %t, the documented rule gives %t", k.Set, k.Lines, got, want)
		}
		if got {
			if n, ok := c14Sound(k.Set, k.Lines); !ok {
				return vlib.Failf("approved although element %q is not an allowed name (set %q, lines %q)", n, k.Set, k.Lines)
			}
		}
	case "api", "api-after-debug", "api-after-parts":
		m, err := c14APIMiddleware(k.Set, k.Ctx)
		if err != nil {
			return vlib.Failf("configuration rejected: %v", err)
		}
		inner := &vlib.Noop{}
		h := m.Wrap(inner)
		req := vlib.Req{Method: "OPTIONS", Hdr: map[string][]string{"Origin": {"https://a.b"}, "Access-Control-Request-Method": {"GET"}, "Access-Control-Request-Headers": k.Lines}}
		if k.Via == "api-after-debug" {
			m.SetDebug(true)
			vlib.Serve(h, &inner.Calls, req, nil)
			m.SetDebug(false)
		}
		if k.Via == "api-after-parts" {
			c14ServeParts(h, k.Lines)
		}
		res := vlib.Serve(h, &inner.Calls, req, nil)
		ok := res.Status >= 200 && res.Status <= 299 && len(res.Hdr["Access-Control-Allow-Origin"]) == 1
		if ok != want {
			return vlib.Failf("preflight with ACRH lines %q under RequestHeaders %q: status %d headers %v, the documented rule says approved=%t", k.Lines, k.Set, res.Status, res.Hdr, want)
		}
		if ok {
			if n, sound := c14Sound(k.Set, k.Lines); !sound {
				return vlib.Failf("preflight approved although element %q is not an allowed name", n)
			}
		}
	default:
		return vlib.Failf("bad case")
	}
	return nil
}

// c14Contexts: settings of the other fields under which a discrete RequestHeaders list must mean the same.
var c14Contexts = []cors.Config{
	{},
	{Credentialed: true, Methods: []string{"*"}, ResponseHeaders: []string{"X-R"}, MaxAgeInSeconds: -1},
	{Methods: []string{"*", "PUT"}, ResponseHeaders: []string{"*"}, ExtraConfig: cors.ExtraConfig{PrivateNetworkAccess: true, PreflightSuccessStatus: 200}},
	{Credentialed: true, Methods: []string{"PATCH"}, MaxAgeInSeconds: 86400, ExtraConfig: cors.ExtraConfig{PrivateNetworkAccessInNoCORSModeOnly: true}},
}

// c14APIMiddleware builds the middleware of the public-API passes: NewMiddleware with placeholder names of the
// same number, then the very same Config value edited in place to the real names and resubmitted.
func c14APIMiddleware(set []string, ctx int) (*cors.Middleware, error) {
	cfg := c14APIConfig(set, ctx)
	real := append([]string(nil), cfg.RequestHeaders...)
	for i := range cfg.RequestHeaders {
		cfg.RequestHeaders[i] = fmt.Sprintf("x-placeholder-%d", i)
	}
	m, err := cors.NewMiddleware(cfg)
	if err != nil {
		return nil, err
	}
	h := m.Wrap(http.HandlerFunc(func(http.ResponseWriter, *http.Request) {}))
	h.ServeHTTP(vlib.NewRec(), vlib.Req{Method: "OPTIONS", Hdr: map[string][]string{"Origin": {"https://a.b"}, "Access-Control-Request-Method": {"GET"}, "Access-Control-Request-Headers": {"x-placeholder-0"}}}.HTTP())
	copy(cfg.RequestHeaders, real)
	if err := m.Reconfigure(&cfg); err != nil {
		return nil, err
	}
	scribbleConfig(&cfg)
	scribbleConfig(m.Config())
	return m, nil
}

func c14APIConfig(set []string, ctx int) cors.Config {
	c := c14Contexts[ctx]
	c.Methods = append([]string(nil), c.Methods...)
	c.ResponseHeaders = append([]string(nil), c.ResponseHeaders...)
	c.Origins = []string{"https://a.b"}
	c.RequestHeaders = c14ConfigNames(set)
	return c
}

// c14ConfigNames is how the public-API passes spell the allowed set in the configuration: every name once with its
// first letter in upper case (as header names are usually written; no name is listed in lower case), then every
// name again in upper case and in reverse order (the configured list is a set: C15).
func c14ConfigNames(set []string) []string {
	out := make([]string, 0, 2*len(set))
	for _, n := range set {
		b := []byte(n)
		for i := range b {
			if 'a' <= b[i] && b[i] <= 'z' {
				b[i] -= 'a' - 'A'
				break
			}
		}
		out = append(out, string(b))
	}
	for i := len(set) - 1; i >= 0; i-- {
		out = append(out, strings.ToUpper(set[i]))
	}
	return out
}

// c14ServeParts serves, as preflights of their own, every single line of the sequence and every proper prefix of
// it: whatever verdict on a part is remembered must not be taken for a verdict on the whole.
func c14ServeParts(h http.Handler, lines []string) {
	serve := func(l []string) {
		r := vlib.Req{Method: "OPTIONS", Hdr: map[string][]string{"Origin": {"https://a.b"}, "Access-Control-Request-Method": {"GET"}, "Access-Control-Request-Headers": l}}
		h.ServeHTTP(vlib.NewRec(), r.HTTP())
	}
	for i := range lines {
		serve(lines[i : i+1])
	}
	for i := 1; i < len(lines); i++ {
		serve(lines[:i])
	}
}

func c14Test(k c14Case) string {
	if k.Via == "api" {
		return fmt.Sprintf(`package cors_test

import ("net/http"; "net/http/httptest"; "testing"; "github.com/jub0bs/cors")

func TestC14Replay(t *testing.T) {
	m, err := cors.NewMiddleware(cors.Config{Origins: []string{"https://a.b"}, RequestHeaders: %#v})
	if err != nil { t.Fatal(err) }
	req := httptest.NewRequest("OPTIONS", "/", nil)
	req.Header = http.Header{"Origin": {"https://a.b"}, "Access-Control-Request-Method": {"GET"}, "Access-Control-Request-Headers": %#v}
	rec := httptest.NewRecorder()
	m.Wrap(http.NotFoundHandler()).ServeHTTP(rec, req)
	approved := rec.Code/100 == 2
	if approved != %t { t.Fatalf("approved=%%t, want %t", approved) }
}
`, k.Set, k.Lines, ref.ACRH(k.Set, k.Lines), ref.ACRH(k.Set, k.Lines))
	}
	return fmt.Sprintf(`package headers_test

import ("testing"; "github.com/jub0bs/cors/internal/headers"; "github.com/jub0bs/cors/internal/util")

func TestC14Replay(t *testing.T) {
	var set util.SortedSet
	for _, n := range %#v { set.Add(n) }
	if got := headers.Check(set, %#v); got != %t { t.Fatalf("Check = %%t, want %t", got) }
}
`, k.Set, k.Lines, ref.ACRH(k.Set, k.Lines), ref.ACRH(k.Set, k.Lines))
}

type c14Family struct {
	set   []string
	alpha []string // symbols (bytes or tokens) lines are built from
	long  bool     // token alphabet: shorter words
	huge  bool     // symbols of hundreds of bytes: shorter still
}

// c14LongNames: allowed names at and around the sizes at which a length-indexed table or bitmap would wrap.
func c14LongNames() c14Family {
	var f c14Family
	for i, n := range []int{1, 63, 64, 65, 128, 255, 256, 300} {
		name := string(rune('b'+i)) + strings.Repeat("x", n-1)
		f.set = append(f.set, name)
		f.alpha = append(f.alpha, name)
	}
	f.alpha = append(f.alpha, f.set[2]+"z", f.set[2][:63], f.set[6][:255], ",", " ", "\t")
	f.long, f.huge = true, true
	return f
}

func c14Families() []c14Family {
	return []c14Family{
		c14LongNames(),
		{set: []string{"a"}, alpha: []string{"a", "b", ",", " ", "\t", "A", "\v"}},
		{set: []string{"a", "ab", "b"}, alpha: []string{"a", "b", "c", ",", " ", "\t", "A"}},
		// more names than the longest name has bytes
		{set: []string{"a", "b", "c", "d", "e", "f", "g", "h"}, alpha: []string{"a", "c", "h", "i", ",", " "}},
		{set: []string{"h0", "h1", "h2", "h3", "h4", "h5", "h6", "h7", "h8", "h9", "i0"}, alpha: []string{"h0", "h5", "i0", "i1", ",", " "}},
		{set: []string{"b", "abc"}, alpha: []string{"a", "b", "c", ",", " ", "\t", "\r"}},
		{set: []string{"a_b", "a.b", "a~", "a"}, alpha: []string{"a", "b", "_", ".", "~", ",", " ", "\t"}},
		{set: []string{"x-a", "x-b"}, alpha: []string{"x-a", "x-b", "x-", "x-ab", "x", ",", " ", "\t"}, long: true},
		{set: []string{"accept", "authorization", "content-type", "x-api-key", "x-requested-with"},
			alpha: []string{"accept", "authorization", "content-type", "x-api-key", "x-requested-with", "content-typ", "x-api-keys", "Accept", ",", " ", "\t"}, long: true},
		{set: []string{"if-none-match", "x!#$%&'*+^`|~", "x-api_key.v2", "x-b3-traceid", "x-requested-with", "x-trace~id", "content-type", "x-a", "x-b", "x-c", "x-d", "x-e"},
			alpha: []string{"content-type", "if-none-match", "x!#$%&'*+^`|~", "x-a", "x-api_key.v2", "x-b3-traceid", "x-e", "x-trace~id", "x-trace~i", "X-A", ",", " "}, long: true},
	}
}

func checkC14(c *vlib.Ctx) (string, string) {
	ck := &Checker[c14Case]{C: c, Judge: c14Judge, Test: c14Test}
	rule := "all field-line sequences over per-set byte/token alphabets up to the stated lengths (single lines, pairs, 1-4 short lines), all distributions of 0-20 commas over 1-4 lines around 0-2 names, all window-edge elements with 0-3 OWS bytes per side, all sorted sublists with browser/intermediary renderings; each run on headers.Check and (a sub-family) through the public API; non-trivial = distinct approved input containing at least one name"
	if ck.Replay() {
		return levelMC, rule
	}
	fams := c14Families()
	famNames := []string{}
	// fast path shared by all internal enumerations
	tryInternal := func(f *c14Family, ss util.SortedSet, lines []string) {
		got := headers.Check(ss, lines)
		want := ref.ACRH(f.set, lines)
		bad := got != want
		if got && !bad {
			hasName := false
			for _, l := range lines {
				if strings.Trim(l, ", \t") != "" {
					hasName = true
				}
			}
			if hasName {
				c.Nontrivial.Add(1)
			}
			if _, ok := c14Sound(f.set, lines); !ok {
				bad = true
			}
		}
		if bad {
			k := c14Case{Set: f.set, Lines: append([]string(nil), lines...), Via: "internal"}
			if fl := vlib.Guard(func() *vlib.Failure { return c14Judge(k) }); fl != nil {
				ck.Report(k, fl)
			} else {
				vlib.HarnessError("fast path and judge disagree on %+v", k)
			}
		}
	}
	for fi := range fams {
		f := &fams[fi]
		famNames = append(famNames, strings.Join(f.set, ","))
		ss := c14Set(f.set)
		// E1: single lines
		n1 := vlib.Pick(c, 7, 9)
		if f.long {
			n1 = vlib.Pick(c, 6, 7)
		}
		if f.huge {
			n1 = vlib.Pick(c, 5, 6) // every symbol is up to 300 bytes long
		}
		w1 := vlib.NewWords(f.alpha, n1)
		c.ParRange(w1.Count(), 4096, "C14 single lines", func(i int64) {
			line := w1.At(i)
			tryInternal(f, ss, []string{line})
			c.SampleAt(i+1, func() any { return c14Case{Set: f.set, Lines: []string{line}, Via: "internal"} })
		})
		c.Evaluations.Add(w1.Count())
		c.States.Add(w1.Count())
		c.Transitions.Add(w1.Count())
		// E2: pairs of lines
		n2 := vlib.Pick(c, 4, 5)
		if f.long {
			n2 = vlib.Pick(c, 3, 4)
		}
		if f.huge {
			n2 = 3
		}
		w2 := vlib.NewWords(f.alpha, n2)
		p := w2.Count()
		c.ParRange(p*p, 4096, "C14 line pairs", func(i int64) {
			tryInternal(f, ss, []string{w2.At(i / p), w2.At(i % p)})
		})
		c.Evaluations.Add(p * p)
		c.States.Add(p * p)
		c.Transitions.Add(2 * p * p)
		// E3: 1-4 lines over the pool of lines of <=2 symbols
		pool := vlib.NewWords(f.alpha, 2)
		poolLines := make([]string, pool.Count())
		for i := range poolLines {
			poolLines[i] = pool.At(int64(i))
		}
		w3 := vlib.NewWords(poolLines, vlib.Pick(c, 3, 4))
		c.ParRange(w3.Count(), 4096, "C14 line sequences", func(i int64) {
			var tmp [8]int
			syms := w3.Syms(i, tmp[:0])
			if len(syms) == 0 {
				return
			}
			lines := make([]string, len(syms))
			for j, s := range syms {
				lines[j] = poolLines[s]
			}
			tryInternal(f, ss, lines)
		})
		c.Evaluations.Add(w3.Count())
		c.States.Add(w3.Count())
		c.Transitions.Add(w3.Count() * 3)
		// E4: the empty-element budget: k commas around 0-2 names, broken into 1..4 lines at every position
		sorted := ref.SortedUnique(f.set)
		nameChoices := [][]string{{}, {sorted[0]}, {sorted[len(sorted)-1]}, {sorted[0], sorted[len(sorted)-1]}, {sorted[len(sorted)-1], sorted[0]}}
		maxBreaks := vlib.Pick(c, 2, 3)
		for _, names := range nameChoices {
			for k := 0; k <= 20; k++ {
				// compositions of k into len(names)+1 parts
				var comps [][]int
				var rec func(parts []int, left, slots int)
				rec = func(parts []int, left, slots int) {
					if slots == 1 {
						comps = append(comps, append(append([]int(nil), parts...), left))
						return
					}
					for x := 0; x <= left; x++ {
						rec(append(parts, x), left-x, slots-1)
					}
				}
				rec(nil, k, len(names)+1)
				for _, comp := range comps {
					// token sequence
					var toks []string
					for j, cnt := range comp {
						for x := 0; x < cnt; x++ {
							toks = append(toks, ",")
						}
						if j < len(names) {
							toks = append(toks, names[j])
						}
					}
					// break positions: subsets of size <= maxBreaks of the gaps 1..len(toks)-1 (plus leading/trailing empty lines via gap 0 / len)
					gaps := len(toks) + 1
					var brk func(start int, chosen []int)
					brk = func(start int, chosen []int) {
						var lines []string
						prev := 0
						for _, g := range chosen {
							lines = append(lines, strings.Join(toks[prev:g], ""))
							prev = g
						}
						lines = append(lines, strings.Join(toks[prev:], ""))
						c.Evaluations.Add(1)
						c.Transitions.Add(int64(len(lines)))
						tryInternal(f, ss, lines)
						if len(chosen) == maxBreaks {
							return
						}
						for g := start; g < gaps; g++ {
							brk(g+1, append(chosen, g))
						}
					}
					brk(0, nil)
					if c.CheckDeadline("C14 empty-element budget") {
						return levelMC, rule
					}
				}
			}
		}
		// E4b: the same budget with padded names and empty elements that carry whitespace themselves: every sorted
		// sublist, one padding per side for all names, k = 0..18 empty elements of one of five spellings, placed in
		// front, behind or after the first name (total line length is what grows here)
		for mask := 1; mask < 1<<len(sorted) && len(sorted) <= 6; mask++ {
			var sub []string
			for j, s := range sorted {
				if mask&(1<<j) != 0 {
					sub = append(sub, s)
				}
			}
			for _, lp := range []string{"", " ", "\t"} {
				for _, rp := range []string{"", " ", "\t"} {
					padded := make([]string, len(sub))
					for j, s := range sub {
						padded[j] = lp + s + rp
					}
					for _, em := range []string{"", " ", "\t", " \t", "  "} {
						for k := 0; k <= 18; k++ {
							empties := make([]string, k)
							for j := range empties {
								empties[j] = em
							}
							for where := 0; where < 3; where++ {
								var els []string
								switch where {
								case 0:
									els = append(append(els, empties...), padded...)
								case 1:
									els = append(append(els, padded...), empties...)
								case 2:
									els = append(append(append(els, padded[0]), empties...), padded[1:]...)
								}
								c.Evaluations.Add(1)
								c.Transitions.Add(1)
								tryInternal(f, ss, []string{strings.Join(els, ",")})
							}
						}
					}
				}
			}
		}
		// E5: the window edge: elements of length MaxLen-1..MaxLen+2 with 0-3 OWS bytes per side
		maxLen := 0
		for _, s := range f.set {
			maxLen = max(maxLen, len(s))
		}
		var elems []string
		for _, s := range f.set {
			elems = append(elems, s)
			if len(s) >= maxLen-1 {
				elems = append(elems, s+"z", s+"zz", s[:len(s)-1], "z"+s)
			}
		}
		// (with the other bytes that Unicode-aware trimming functions regard as space: none of them is OWS)
		ows := []string{"", " ", "\t", "  ", " \t", "\t ", "   ", "\t \t", "\v", "\f", "\r", "\n", "\u00a0", "\u0085", "\xa0", " \f"}
		follow := []string{"", ",", "," + sorted[len(sorted)-1], ", " + sorted[len(sorted)-1], "," + sorted[0], ",,", " ,"}
		for _, e := range elems {
			for _, l := range ows {
				for _, r := range ows {
					for _, fo := range follow {
						for _, pre := range []string{"", ",", sorted[0] + ","} {
							c.Evaluations.Add(1)
							c.Transitions.Add(1)
							tryInternal(f, ss, []string{pre + l + e + r + fo})
							tryInternal(f, ss, []string{pre + l + e + r, strings.TrimPrefix(fo, ",")})
						}
					}
				}
			}
		}
		// E6: completeness for browsers, stated without the reference model: every sorted unique sublist,
		// joined by ",", split into lines at every comma subset, padded by an intermediary, is approved
		for mask := 1; mask < 1<<len(sorted); mask++ {
			var sub []string
			for j, s := range sorted {
				if mask&(1<<j) != 0 {
					sub = append(sub, s)
				}
			}
			for split := 0; split < 1<<(len(sub)-1); split++ {
				for _, pad := range []string{"", " ", "\t"} {
					var lines []string
					cur := pad + sub[0] + pad
					for j := 1; j < len(sub); j++ {
						if split&(1<<(j-1)) != 0 {
							lines = append(lines, cur)
							cur = pad + sub[j] + pad
						} else {
							cur += "," + pad + sub[j] + pad
						}
					}
					lines = append(lines, cur)
					c.Evaluations.Add(1)
					c.Transitions.Add(1)
					if !headers.Check(ss, lines) {
						k := c14Case{Set: f.set, Lines: lines, Via: "internal"}
						ck.Report(k, vlib.Failf("browser-style list %q of allowed names %q is not approved", lines, f.set))
					}
					tryInternal(f, ss, lines)
				}
			}
		}
		// E6b: many field lines: 0..18 empty lines (16 are tolerated) before, between and after the names of every sorted
		// sublist, one name per line - how many lines there are is measured against nothing but the limit of 16
		if len(f.set) <= 12 {
			sorted := ref.SortedUnique(f.set)
			for mask := 1; mask < 1<<len(sorted); mask++ {
				var sub []string
				for j := range sorted {
					if mask&(1<<j) != 0 {
						sub = append(sub, sorted[j])
					}
				}
				for empties := 0; empties <= 18; empties++ {
					for where := 0; where < 3; where++ {
						var lines []string
						pad := make([]string, empties)
						switch where {
						case 0:
							lines = append(append(lines, pad...), sub...)
						case 1:
							lines = append(append(lines, sub...), pad...)
						default:
							lines = append(append(append(lines, sub[:len(sub)/2]...), pad...), sub[len(sub)/2:]...)
						}
						c.Evaluations.Add(1)
						c.Transitions.Add(1)
						tryInternal(f, ss, lines)
					}
				}
			}
		}
		// E7: binding to the public API (debug off): single lines and pairs over a shorter bound
		wa := vlib.NewWords(f.alpha, vlib.Pick(c, 4, 5))
		if f.long {
			wa = vlib.NewWords(f.alpha, vlib.Pick(c, 3, 4))
		}
		m, err := c14APIMiddleware(f.set, 0)
		if err != nil {
			ck.Report(c14Case{Set: f.set, Via: "api"}, vlib.Failf("configuration rejected: %v", err))
			continue
		}
		// the same list under the other settings of the remaining fields (shorter words)
		for ctx := 1; ctx < len(c14Contexts); ctx++ {
			mc, err := c14APIMiddleware(f.set, ctx)
			if err != nil {
				ck.Report(c14Case{Set: f.set, Via: "api", Ctx: ctx}, vlib.Failf("configuration rejected: %v", err))
				continue
			}
			hc := mc.Wrap(http.HandlerFunc(func(http.ResponseWriter, *http.Request) {}))
			wc := vlib.NewWords(f.alpha, 2)
			pc := wc.Count()
			c.ParRange(pc*pc, 1024, "C14 API pairs under other field settings", func(i int64) {
				lines := []string{wc.At(i / pc), wc.At(i % pc)}
				rec := vlib.NewRec()
				r := vlib.Req{Method: "OPTIONS", Hdr: map[string][]string{"Origin": {"https://a.b"}, "Access-Control-Request-Method": {"GET"}, "Access-Control-Request-Headers": lines}}
				hc.ServeHTTP(rec, r.HTTP())
				ok := rec.Status >= 200 && rec.Status <= 299 && len(rec.H["Access-Control-Allow-Origin"]) == 1
				if ok != ref.ACRH(f.set, lines) {
					k := c14Case{Set: f.set, Lines: lines, Via: "api", Ctx: ctx}
					if fl := vlib.Guard(func() *vlib.Failure { return c14Judge(k) }); fl != nil {
						ck.Report(k, fl)
					} else {
						vlib.HarnessError("fast path and judge disagree on %+v", k)
					}
				}
			})
			c.Evaluations.Add(pc * pc)
			c.Transitions.Add(pc * pc)
		}
		h := m.Wrap(http.HandlerFunc(func(http.ResponseWriter, *http.Request) {}))
		apiTry := func(lines []string) {
			rec := vlib.NewRec()
			r := vlib.Req{Method: "OPTIONS", Hdr: map[string][]string{"Origin": {"https://a.b"}, "Access-Control-Request-Method": {"GET"}, "Access-Control-Request-Headers": lines}}
			h.ServeHTTP(rec, r.HTTP())
			ok := rec.Status >= 200 && rec.Status <= 299 && len(rec.H["Access-Control-Allow-Origin"]) == 1
			if ok != ref.ACRH(f.set, lines) {
				k := c14Case{Set: f.set, Lines: append([]string(nil), lines...), Via: "api"}
				if fl := vlib.Guard(func() *vlib.Failure { return c14Judge(k) }); fl != nil {
					ck.Report(k, fl)
				} else {
					vlib.HarnessError("fast path and judge disagree on %+v", k)
				}
			}
		}
		// history: the lines were first seen while debug mode was on (where they are not validated), then debug is
		// switched off and the same lines come again
		apiAfterDebug := func(lines []string) {
			mh, err := cors.NewMiddleware(cors.Config{Origins: []string{"https://a.b"}, RequestHeaders: c14ConfigNames(f.set)})
			if err != nil {
				return
			}
			hh := mh.Wrap(http.HandlerFunc(func(http.ResponseWriter, *http.Request) {}))
			r := vlib.Req{Method: "OPTIONS", Hdr: map[string][]string{"Origin": {"https://a.b"}, "Access-Control-Request-Method": {"GET"}, "Access-Control-Request-Headers": lines}}
			mh.SetDebug(true)
			hh.ServeHTTP(vlib.NewRec(), r.HTTP())
			mh.SetDebug(false)
			rec := vlib.NewRec()
			hh.ServeHTTP(rec, r.HTTP())
			ok := rec.Status >= 200 && rec.Status <= 299 && len(rec.H["Access-Control-Allow-Origin"]) == 1
			if ok != ref.ACRH(f.set, lines) {
				k := c14Case{Set: f.set, Lines: append([]string(nil), lines...), Via: "api-after-debug"}
				if fl := vlib.Guard(func() *vlib.Failure { return c14Judge(k) }); fl != nil {
					ck.Report(k, fl)
				} else {
					vlib.HarnessError("fast path and judge disagree on %+v", k)
				}
			}
		}
		// history: the parts of the sequence come first, as preflights of their own, on a middleware of their own
		apiAfterParts := func(lines []string) {
			mh, err := cors.NewMiddleware(cors.Config{Origins: []string{"https://a.b"}, RequestHeaders: c14ConfigNames(f.set)})
			if err != nil {
				return
			}
			hh := mh.Wrap(http.HandlerFunc(func(http.ResponseWriter, *http.Request) {}))
			c14ServeParts(hh, lines)
			rec := vlib.NewRec()
			r := vlib.Req{Method: "OPTIONS", Hdr: map[string][]string{"Origin": {"https://a.b"}, "Access-Control-Request-Method": {"GET"}, "Access-Control-Request-Headers": lines}}
			hh.ServeHTTP(rec, r.HTTP())
			ok := rec.Status >= 200 && rec.Status <= 299 && len(rec.H["Access-Control-Allow-Origin"]) == 1
			if ok != ref.ACRH(f.set, lines) {
				k := c14Case{Set: f.set, Lines: append([]string(nil), lines...), Via: "api-after-parts"}
				if fl := vlib.Guard(func() *vlib.Failure { return c14Judge(k) }); fl != nil {
					ck.Report(k, fl)
				} else {
					vlib.HarnessError("fast path and judge disagree on %+v", k)
				}
			}
		}
		wp := vlib.NewWords(f.alpha, 2)
		pp := wp.Count()
		c.ParRange(pp*pp, 256, "C14 API pairs after their parts", func(i int64) { apiAfterParts([]string{wp.At(i / pp), wp.At(i % pp)}) })
		c.Evaluations.Add(pp * pp)
		c.Transitions.Add(4 * pp * pp)
		wh := vlib.NewWords(f.alpha, 3)
		c.ParRange(wh.Count(), 256, "C14 API lines after debug mode", func(i int64) { apiAfterDebug([]string{wh.At(i)}) })
		c.Evaluations.Add(wh.Count())
		c.Transitions.Add(2 * wh.Count())
		c.ParRange(wa.Count(), 1024, "C14 API lines", func(i int64) { apiTry([]string{wa.At(i)}) })
		c.Evaluations.Add(wa.Count())
		c.Transitions.Add(wa.Count())
		wb := vlib.NewWords(f.alpha, 2)
		pb := wb.Count()
		c.ParRange(pb*pb*pb, 1024, "C14 API triples", func(i int64) {
			apiTry([]string{wb.At(i / (pb * pb)), wb.At(i / pb % pb), wb.At(i % pb)})
		})
		c.Evaluations.Add(pb * pb * pb)
		c.Transitions.Add(pb * pb * pb)
		if c.Stopped() {
			break
		}
	}
	c.Set("allowed_name_sets", famNames)
	c.Set("bounds", map[string]any{"single_line_symbols": vlib.Pick(c, "7 bytes / 6 tokens", "9 bytes / 7 tokens"), "pair_symbols": vlib.Pick(c, "4/3", "5/4"), "lines_per_sequence": vlib.Pick(c, 3, 4), "commas": "0..20", "line_breaks": vlib.Pick(c, 2, 3)})
	return levelMC, rule
}

func init() { registry["C14"] = checkC14 }
