package main

import (
	"fmt"
	"net/http"
	"strings"

	"github.com/jub0bs/cors"
	"github.com/jub0bs/cors/internal/zzverif/ref"
	"github.com/jub0bs/cors/internal/zzverif/vlib"
)

// C16 — with debug off, preflight responses disclose nothing beyond what was asked.

type c16Case struct {
	Cfg   CfgLit   `json:"config"`
	Req   vlib.Req `json:"request"`
	Route int      `json:"route,omitempty"` // construction route (see suite.go); debug ends up off on every route
	// Seq 1 / 2: the request is served by one middleware that serves the whole request alphabet in order / in
	// reverse order (whatever the requests before it left behind must not show)
	Seq int `json:"sequence,omitempty"`
}

// c16Baseline is a preflight that certainly fails under l: an origin that is not allowed or, for allow-all
// configurations (whose method lists are discrete in this alphabet), a method that is not listed.
func c16Baseline(l CfgLit) vlib.Req {
	if isAllowAll(l) {
		return vlib.Req{Method: "OPTIONS", Hdr: map[string][]string{"Origin": {"https://a.example"}, "Access-Control-Request-Method": {"GET"}, "Access-Control-Request-Private-Network": {"true"}}}
	}
	return vlib.Req{Method: "OPTIONS", Hdr: map[string][]string{"Origin": {"https://denied.example"}, "Access-Control-Request-Method": {"GET"}}}
}

// c16MustFail: reasons for failure that follow from the documentation with certainty.
func c16MustFail(l CfgLit, r vlib.Req) (bool, string) {
	o := r.Hdr["Origin"][0]
	if !isAllowAll(l) && !(ref.LenientSerializedOrigin(o) && ref.DenotedByAny(l.Origins, o)) {
		return true, "origin not allowed"
	}
	if v := r.Hdr["Access-Control-Request-Private-Network"]; len(v) > 0 && v[0] == "true" && !l.PNA && !l.PNANoCORS {
		return true, "private-network access not enabled"
	}
	m := r.Hdr["Access-Control-Request-Method"][0]
	if !ref.IsSafelistedMethod(m) {
		ok := false
		for _, lm := range l.Methods {
			if lm == "*" || ref.NormalizeMethod(lm) == m {
				ok = true
			}
		}
		if !ok {
			return true, "method not allowed"
		}
	}
	if lines := r.Hdr["Access-Control-Request-Headers"]; len(lines) > 0 {
		star := false
		var names []string
		for _, n := range l.RequestHeaders {
			if n == "*" {
				star = true
			} else {
				names = append(names, strings.ToLower(n))
			}
		}
		if !star && !ref.ACRH(names, lines) {
			return true, "requested headers not allowed"
		}
	}
	return false, ""
}

func c16Judge(k c16Case) *vlib.Failure {
	if k.Seq != 0 {
		_, f := c16Sequence(k.Cfg, k.Seq, k.Req.String())
		return f
	}
	bm, err := buildViaH(k.Route, k.Cfg, false, k.Req)
	if err != nil {
		return vlib.Failf("configuration of the C16 alphabet rejected (route %q): %v", routeNames[k.Route], err)
	}
	inner := &vlib.Noop{}
	h := bm.wrap(inner)
	base := vlib.Serve(h, &inner.Calls, c16Baseline(k.Cfg), nil)
	if base.Status/100 == 2 {
		return vlib.Failf("baseline failing preflight (origin or method not allowed) got status %d", base.Status)
	}
	res := vlib.Serve(h, &inner.Calls, k.Req, nil)
	if f := c16Counterpart(h, &inner.Calls, k.Req, res); f != nil {
		return f
	}
	return c16Invariants(k, base, res)
}

// c16Counterpart: an ACRPN value other than exactly "true" asks for nothing; the answer must be the one the same
// request gets without that header.
func c16Counterpart(h http.Handler, calls *int, r vlib.Req, res vlib.Resp) *vlib.Failure {
	a, ok := r.Hdr["Access-Control-Request-Private-Network"]
	if !ok || len(a) > 0 && a[0] == "true" {
		return nil
	}
	hdr := map[string][]string{}
	for k, v := range r.Hdr {
		if k != "Access-Control-Request-Private-Network" {
			hdr[k] = v
		}
	}
	cp := vlib.Serve(h, calls, vlib.Req{Method: r.Method, Hdr: hdr}, nil)
	if cp.Sig() != res.Sig() {
		return vlib.Failf("ACRPN=%q does not ask for private-network access, yet the answer differs from the one without that header:\n with:    %s\n without: %s", a, res.Sig(), cp.Sig())
	}
	return nil
}

// c16Sequence serves the request alphabet in order (seq 1) or in reverse order (seq 2) on one fresh middleware and
// checks every response (up to the request rendered as `until`, if not empty); it returns the first offending request.
func c16Sequence(l CfgLit, seq int, until string) (*vlib.Req, *vlib.Failure) {
	m, err := cors.NewMiddleware(l.Config())
	if err != nil {
		return nil, vlib.Failf("configuration of the C16 alphabet rejected: %v", err)
	}
	inner := &vlib.Noop{}
	h := m.Wrap(inner)
	base := vlib.Serve(h, &inner.Calls, c16Baseline(l), nil)
	reqs := c16Requests()
	for i := range reqs {
		r := reqs[i]
		if seq == 2 {
			r = reqs[len(reqs)-1-i]
		}
		res := vlib.Serve(h, &inner.Calls, r, nil)
		f := c16Counterpart(h, &inner.Calls, r, res)
		if f == nil {
			f = c16Invariants(c16Case{Cfg: l, Req: r}, base, res)
		}
		if f != nil {
			f.Detail = fmt.Sprintf("as request #%d of the alphabet served on one middleware (sequence %d): %s", i+1, seq, f.Detail)
			return &r, f
		}
		if until != "" && r.String() == until {
			break
		}
	}
	return nil, nil
}

func c16Invariants(k c16Case, base, res vlib.Resp) *vlib.Failure {
	suppliedLines := map[string]bool{}
	for _, l := range k.Req.Hdr["Access-Control-Request-Headers"] {
		suppliedLines[l] = true
	}
	for hk, hv := range res.Hdr {
		for _, v := range hv {
			if strings.Contains(strings.ToLower(v), "canary") && !suppliedLines[v] {
				return vlib.Failf("response discloses a configured value the request never mentioned: %s: %q", hk, v)
			}
		}
	}
	hasAC := ""
	for hk := range res.Hdr {
		if strings.HasPrefix(hk, "Access-Control-") {
			hasAC = hk
		}
	}
	if res.ExtraWrites > 0 {
		return vlib.Failf("the middleware called WriteHeader %d times on one preflight response (a writer that keeps the last call would send something else)", res.ExtraWrites+1)
	}
	must, why := c16MustFail(k.Cfg, k.Req)
	if len(res.Hdr["Access-Control-Allow-Origin"]) == 0 && !must {
		// without Allow-Origin no browser takes the preflight for a success, whatever the status says
		must, why = true, "no Access-Control-Allow-Origin in the answer"
	}
	if res.Status/100 != 2 || must {
		if hasAC != "" {
			return vlib.Failf("failing preflight (status %d, %s) carries %s: %q", res.Status, why, hasAC, res.Hdr[hasAC])
		}
		if res.Status != base.Status {
			return vlib.Failf("failing preflight (%s) got status %d, a preflight failing for another reason got %d", why, res.Status, base.Status)
		}
		return nil
	}
	// success: only *, true, *,authorization, the configured max-age and request-supplied tokens
	wantStatus := k.Cfg.Status
	if wantStatus == 0 {
		wantStatus = 204
	}
	if res.Status != wantStatus {
		return vlib.Failf("successful preflight status %d, configured %d", res.Status, wantStatus)
	}
	if v := res.Hdr["Access-Control-Allow-Private-Network"]; len(v) > 0 {
		if a := k.Req.Hdr["Access-Control-Request-Private-Network"]; len(a) == 0 || a[0] != "true" {
			return vlib.Failf("successful preflight carries Access-Control-Allow-Private-Network=%q although the request did not ask for private-network access (ACRPN=%q)", v, a)
		}
	}
	supplied := map[string]bool{"*": true, "true": true}
	supplied[k.Req.Hdr["Origin"][0]] = true
	supplied[k.Req.Hdr["Access-Control-Request-Method"][0]] = true
	for _, l := range k.Req.Hdr["Access-Control-Request-Headers"] {
		supplied[l] = true
	}
	for hk, hv := range res.Hdr {
		if !strings.HasPrefix(hk, "Access-Control-") {
			continue
		}
		for _, v := range hv {
			switch {
			case hk == "Access-Control-Max-Age":
				if v != expectedACMA(k.Cfg) {
					return vlib.Failf("Access-Control-Max-Age %q, configured rendering %q", v, expectedACMA(k.Cfg))
				}
			case hk == "Access-Control-Allow-Headers" && v == "*,authorization":
				if k.Cfg.Credentialed {
					return vlib.Failf("*,authorization emitted by a credentialed configuration")
				}
			case supplied[v]:
			default:
				return vlib.Failf("successful preflight names %s: %q, which the request did not supply (request %s)", hk, v, k.Req)
			}
		}
	}
	return nil
}

func c16Alphabet() (origins, acrms, acrhs, acrpns [][]string) {
	origins = [][]string{{"https://a.example"}, {"https://x.a.example"}, {"https://denied.example"}, {"https://a.example:8080"}, {"garbage"}, {"https://a.example/"}, {""}, {"null"}, {"https://a.example", "https://denied.example"}, {"https://denied.example", "https://a.example"}}
	acrms = [][]string{{"GET"}, {"PUT"}, {"put"}, {"DELETE"}, {"@@"}, {""}, {"PUT", "DELETE"}, {"HEAD"}, {"PATCH"}, {"TRACE"}, {"connect"}, {"OPTIONS"}, {"P\xffT"}, {"P\u00dcT"}, {"PU T"}}
	acrhs = [][]string{nil, {}, {"x-a"}, {"x-a,x-b"}, {"x-a,x-z"}, {"x-z"}, {"x-b,x-a"}, {"x-a", "x-b"}, {"x-b", "x-a"}, {"\x00"}, {"X-A"}, {"authorization"}, {"authorization,x-a"}, {" x-a ,x-b"}, {",,x-a"}, {strings.Repeat(",", 17)}, {"x-a,x-a"}}
	acrpns = [][]string{nil, {"true"}, {"TRUE"}, {"true", "false"}, {"false"}, {""}}
	return
}

// c16Requests is the request alphabet as a list (the order of the product: ACRPN varies fastest).
func c16Requests() []vlib.Req {
	origins, acrms, acrhs, acrpns := c16Alphabet()
	var out []vlib.Req
	for _, o := range origins {
		for _, am := range acrms {
			for _, ah := range acrhs {
				for _, ap := range acrpns {
					hdr := map[string][]string{"Origin": o, "Access-Control-Request-Method": am}
					if ah != nil {
						hdr["Access-Control-Request-Headers"] = ah
					}
					if ap != nil {
						hdr["Access-Control-Request-Private-Network"] = ap
					}
					out = append(out, vlib.Req{Method: "OPTIONS", Hdr: hdr})
				}
			}
		}
	}
	return out
}

func c16Test(k c16Case) string {
	return fmt.Sprintf(`package cors_test

import ("net/http"; "net/http/httptest"; "testing"; "github.com/jub0bs/cors")

func TestC16Replay(t *testing.T) {
	m, err := cors.NewMiddleware(%s)
	if err != nil { t.Fatal(err) }
	req := httptest.NewRequest("OPTIONS", "/", nil); req.Header = %#v
	rec := httptest.NewRecorder()
	m.Wrap(http.HandlerFunc(func(http.ResponseWriter, *http.Request) {})).ServeHTTP(rec, req)
	t.Logf("%%d %%v", rec.Code, rec.Header()) // debug is off: a failing preflight must carry no Access-Control-* header and the common failure status; a successful one only *, true, max-age and request-supplied tokens
}
`, k.Cfg.GoLiteral(), http.Header(k.Req.Hdr))
}

func checkC16(c *vlib.Ctx) (string, string) {
	ck := &Checker[c16Case]{C: c, Judge: c16Judge, Test: c16Test}
	rule := "full product canary-carrying configuration x preflight request (origin x ACRM x ACRH lines x ACRPN) with debug off on the real middleware; failing responses must carry no Access-Control-* header and one common status per configuration, successful ones only *, true, max-age and request-supplied values; non-trivial = distinct successful preflight"
	if ck.Replay() {
		return levelMC, rule
	}
	co, cm, ch, cr := "https://canary-origin.example", "CANARYM", "X-Canary-H", "X-Canary-R"
	base := []CfgLit{
		{Origins: []string{"https://a.example", co}, Methods: []string{"PUT", cm}, RequestHeaders: []string{"X-A", "X-B", ch}, ResponseHeaders: []string{cr}, MaxAge: 30},
		{Origins: []string{"https://a.example", co}, Methods: []string{"PUT", cm}, ResponseHeaders: []string{cr}},
		{Origins: []string{"https://a.example", co}, Methods: []string{"*"}, RequestHeaders: []string{"*"}, MaxAge: -1},
		{Origins: []string{"https://a.example", co}, Methods: []string{"*", cm}, RequestHeaders: []string{"*", "Authorization"}, ResponseHeaders: []string{cr}},
		{Origins: []string{"*"}, Methods: []string{"PUT", cm}, RequestHeaders: []string{"X-A", ch, "Authorization"}, ResponseHeaders: []string{cr}},
		{Origins: []string{"https://a.example", "*", co}, Methods: []string{"PUT", cm}, RequestHeaders: []string{"X-A", "X-B", ch}, ResponseHeaders: []string{cr}, MaxAge: 30},
		{Origins: []string{"https://*.a.example", co}, Credentialed: true, Methods: []string{"PUT", cm}, RequestHeaders: []string{"X-A", "X-B", ch}, ResponseHeaders: []string{cr}, MaxAge: 86400},
		{Origins: []string{"https://a.example", co}, Credentialed: true, Methods: []string{"*"}, RequestHeaders: []string{"*"}},
		{Origins: []string{"https://a.example", co}, PNA: true, Methods: []string{"PUT", cm}, RequestHeaders: []string{"X-A", ch}},
		{Origins: []string{"https://a.example", co}, PNANoCORS: true, Methods: []string{"PUT", cm}, RequestHeaders: []string{"X-A", ch}, MaxAge: 5},
	}
	// every ordering of {*, Authorization, canary header} (and sub-lists) x {*, canary method}, anonymous and credentialed
	for _, hl := range [][]string{{ch, "*", "Authorization"}, {"*", ch, "Authorization"}, {"Authorization", ch, "*"}, {ch, "Authorization", "*"}, {"*", "Authorization", ch}, {"Authorization", "*", ch}, {ch, "*"}, {"*", ch}, {ch, "Authorization"}, {"X-A", ch, "*", "X-B", "Authorization"}} {
		for _, ml := range [][]string{{cm, "*"}, {"*", cm}, {"PUT", cm}} {
			for _, cred := range []bool{false, true} {
				base = append(base, CfgLit{Origins: []string{"https://a.example", co}, Credentialed: cred, Methods: ml, RequestHeaders: hl, ResponseHeaders: []string{cr, "X-R"}, MaxAge: 30})
			}
		}
	}
	base = append(base,
		CfgLit{Origins: []string{"*"}, Methods: []string{"*"}, RequestHeaders: []string{"*"}},
		CfgLit{Origins: []string{"*"}, Methods: []string{"*"}, RequestHeaders: []string{"*", "Authorization"}, ResponseHeaders: []string{"*"}, MaxAge: 600},
		CfgLit{Origins: []string{co, "*"}, Methods: []string{cm, "*"}, RequestHeaders: []string{ch, "*"}},
		CfgLit{Origins: []string{"*"}, Methods: []string{"*"}},
		CfgLit{Origins: []string{"*"}, RequestHeaders: []string{"*"}})
	var cfgs []CfgLit
	for _, b := range base {
		for i, st := range []int{0, 200, 204, 299} {
			if len(cfgs) > 40 && i > 0 && i < 3 {
				continue // the ordering family uses two statuses only
			}
			b.Status = st
			cfgs = append(cfgs, b)
		}
	}
	origins, acrms, acrhs, acrpns := c16Alphabet()
	prod := vlib.Product{Sizes: []int{len(cfgs), len(origins), len(acrms), len(acrhs), len(acrpns)}}
	type built struct {
		h          http.Handler
		failStatus int
	}
	bs := make([]built, len(cfgs))
	for i, l := range cfgs {
		m, err := cors.NewMiddleware(l.Config())
		if err != nil {
			ck.Report(c16Case{Cfg: l, Req: c16Baseline(l)}, vlib.Failf("configuration of the C16 alphabet rejected: %v", err))
			return levelMC, rule
		}
		bs[i].h = m.Wrap(http.HandlerFunc(func(http.ResponseWriter, *http.Request) {}))
	}
	c.ParRange(prod.Count(), 256, "C16 product", func(i int64) {
		var tmp [8]int
		ix := prod.At(i, tmp[:0])
		hdr := map[string][]string{"Origin": origins[ix[1]], "Access-Control-Request-Method": acrms[ix[2]]}
		if v := acrhs[ix[3]]; v != nil {
			hdr["Access-Control-Request-Headers"] = v
		}
		if v := acrpns[ix[4]]; v != nil {
			hdr["Access-Control-Request-Private-Network"] = v
		}
		k := c16Case{Cfg: cfgs[ix[0]], Req: vlib.Req{Method: "OPTIONS", Hdr: hdr}, Route: int(i % nRoutes)}
		if ck.Try(k) {
			rec := vlib.NewRec()
			bs[ix[0]].h.ServeHTTP(rec, k.Req.HTTP())
			if rec.Status/100 == 2 {
				c.Nontrivial.Add(1)
			}
		}
		c.SampleAt(i+1, func() any { return k })
	})
	// the whole alphabet on one middleware per configuration, in order and in reverse order
	nreq := int64(len(c16Requests()))
	c.ParRange(int64(2*len(cfgs)), 1, "C16 sequences", func(i int64) {
		l, seq := cfgs[i/2], int(i%2)+1
		c.Transitions.Add(nreq)
		if r, f := c16Sequence(l, seq, ""); f != nil {
			ck.Report(c16Case{Cfg: l, Req: *r, Seq: seq}, f)
		}
	})
	// one ACRH line naming a proper subset of the allowed names, padded with empty elements (at most 16) and optional
	// whitespace to every length around that of the joined allow-list: the answer names what was asked for
	for _, cred := range []bool{false, true} {
		pad := CfgLit{Origins: []string{"https://a.example", co}, Credentialed: cred, Methods: []string{"PUT", cm}, RequestHeaders: []string{"Content-Type", "X-Admin", ch}, ResponseHeaders: []string{cr}}
		for _, sub := range []string{"content-type", "x-admin", "content-type,x-admin"} {
			for n := 0; n <= 16; n++ {
				for _, line := range []string{sub + strings.Repeat(",", n), strings.Repeat(",", n) + sub, strings.Replace(sub, ",", strings.Repeat(",", n+1), 1), sub + strings.Repeat(", ", n/2+1)[:n], " " + sub + strings.Repeat(",", n)} {
					c.States.Add(1)
					c.Transitions.Add(2)
					ck.Try(c16Case{Cfg: pad, Req: vlib.Req{Method: "OPTIONS", Hdr: map[string][]string{"Origin": {"https://a.example"}, "Access-Control-Request-Method": {"PUT"}, "Access-Control-Request-Headers": {line}}}})
				}
			}
		}
	}
	// every request of the alphabet with every request attribute that is not a header (protocol version, TLS, a
	// context that is already cancelled or past its deadline ...): a failing preflight fails the same way
	var reqs []vlib.Req
	for _, o := range []string{"https://a.example", "https://denied.example"} {
		for _, am := range []string{"GET", "PUT", "DELETE"} {
			for _, ah := range [][]string{nil, {"x-a"}, {"x-z"}, {"authorization,x-a"}} {
				for _, ap := range [][]string{nil, {"true"}, {"false"}} {
					hdr := map[string][]string{"Origin": {o}, "Access-Control-Request-Method": {am}}
					if ah != nil {
						hdr["Access-Control-Request-Headers"] = ah
					}
					if ap != nil {
						hdr["Access-Control-Request-Private-Network"] = ap
					}
					reqs = append(reqs, vlib.Req{Method: "OPTIONS", Hdr: hdr})
				}
			}
		}
	}
	pa := vlib.Product{Sizes: []int{len(cfgs), len(reqs), len(vlib.Attrs)}}
	c.ParRange(pa.Count(), 64, "C16 request attributes", func(i int64) {
		var tmp [4]int
		ix := pa.At(i, tmp[:0])
		r := reqs[ix[1]]
		r.Attr = vlib.Attrs[ix[2]]
		c.Transitions.Add(2)
		ck.Try(c16Case{Cfg: cfgs[ix[0]], Req: r, Route: int(i % nRoutes)})
	})
	c.States.Add(pa.Count())
	// large allowed list, requested names spread over many field lines (1..70 lines, one or two names each, with up
	// to 16 empty lines): the answer names what was asked for, never the configured list
	var bigNames []string
	for i := 0; i < 40; i++ {
		bigNames = append(bigNames, fmt.Sprintf("X-Canary-H%02d", i))
	}
	for _, cred := range []bool{false, true} {
		big := CfgLit{Origins: []string{"https://a.example", co}, Credentialed: cred, Methods: []string{"PUT", cm}, RequestHeaders: bigNames, ResponseHeaders: []string{cr}, MaxAge: 30}
		for nLines := 1; nLines <= 70; nLines++ {
			for _, empties := range []int{0, 16} {
				var lines []string
				for i := 0; i < nLines && i < 40; i++ {
					lines = append(lines, fmt.Sprintf("x-canary-h%02d", i))
				}
				for i := 40; i < nLines; i++ {
					lines = append(lines, "") // more lines than names: the surplus lines are empty (at most 16 may be)
				}
				for i := 0; i < empties && nLines <= 40; i++ {
					lines = append(lines[:i*2%len(lines)+0], append([]string{""}, lines[i*2%len(lines):]...)...)
				}
				k := c16Case{Cfg: big, Req: vlib.Req{Method: "OPTIONS", Hdr: map[string][]string{"Origin": {"https://a.example"}, "Access-Control-Request-Method": {"PUT"}, "Access-Control-Request-Headers": lines}}}
				c.States.Add(1)
				c.Transitions.Add(2)
				if ck.Try(k) {
					c.Nontrivial.Add(1)
				}
			}
		}
	}
	c.Set("sequence_passes", 2*len(cfgs))
	c.States.Add(prod.Count())
	c.Transitions.Add(2 * prod.Count())
	c.Set("product_sizes", map[string]int{"configurations": len(cfgs), "origin_lists": len(origins), "acrm_lists": len(acrms), "acrh_lists": len(acrhs), "acrpn_lists": len(acrpns)})
	return levelMC, rule
}

func init() { registry["C16"] = checkC16 }
