package main

import (
	"fmt"
	"net/http"
	"strings"

	"github.com/jub0bs/cors"
	"github.com/jub0bs/cors/internal/zzverif/vlib"
)

// C15 — config lists are sets: order, duplicates and header-name case are irrelevant (metamorphic).

type c15Case struct {
	Base CfgLit `json:"base"`
	Twin CfgLit `json:"twin"`
	How  string `json:"how"`
}

func c15Judge(k c15Case) *vlib.Failure {
	cb, ct := k.Base.Config(), k.Twin.Config() // the same two values are handed over again further down
	mb, errB := cors.NewMiddleware(cb)
	mt, errT := cors.NewMiddleware(ct)
	if (errB == nil) != (errT == nil) {
		return vlib.Failf("base and twin (%s) are not both accepted: base err=%v, twin err=%v", k.How, errB, errT)
	}
	if errB != nil {
		return nil
	}
	suite := suiteFor(k.Base, k.Twin)
	a, b := observeBoth(mb, suite), observeBoth(mt, suite)
	if i := firstDiff(a, b); i >= 0 {
		return vlib.Failf("twin (%s) answers %s (debug=%t) differently:\n base %s -> %s\n twin %s -> %s", k.How, suite[i%len(suite)], i >= len(suite), k.Base.GoLiteral(), a[i], k.Twin.GoLiteral(), b[i])
	}
	// the same on the other way into a configuration: both are installed by Reconfigure on middlewares that currently
	// hold a common predecessor, the base with one more entry in every list (so that the predecessor's lists are as
	// long as a twin with one duplicate and contain every entry of it)
	pred := k.Base
	pred.Origins = append(append([]string(nil), k.Base.Origins...), "https://zz-extra.example")
	if len(k.Base.Methods) > 0 {
		pred.Methods = append(append([]string(nil), k.Base.Methods...), "ZZEXTRA")
	}
	if len(k.Base.RequestHeaders) > 0 {
		pred.RequestHeaders = append(append([]string(nil), k.Base.RequestHeaders...), "X-Zz-Extra")
	}
	if len(k.Base.ResponseHeaders) > 0 {
		pred.ResponseHeaders = append(append([]string(nil), k.Base.ResponseHeaders...), "X-Zz-Extra-R")
	}
	pb, e1 := cors.NewMiddleware(pred.Config())
	pt, e2 := cors.NewMiddleware(pred.Config())
	if e1 != nil || e2 != nil {
		return nil // this base has no such predecessor (e.g. its lists end with an entry that forbids more)
	}
	if e1, e2 := pb.Reconfigure(&cb), pt.Reconfigure(&ct); e1 != nil || e2 != nil {
		return vlib.Failf("base and twin (%s) are accepted by NewMiddleware but not by Reconfigure on a configured middleware: base err=%v, twin err=%v", k.How, e1, e2)
	}
	suite = suiteFor(k.Base, k.Twin, pred)
	a, b = observe(pb, suite), observe(pt, suite) // debug off only: the debug-mode renderings were compared above
	if i := firstDiff(a, b); i >= 0 {
		return vlib.Failf("twin (%s), both installed by Reconfigure on a middleware holding %s, answers %s (debug=%t) differently:\n base %s -> %s\n twin %s -> %s", k.How, pred.GoLiteral(), suite[i%len(suite)], i >= len(suite), k.Base.GoLiteral(), a[i], k.Twin.GoLiteral(), b[i])
	}
	return nil
}

func c15Test(k c15Case) string {
	return fmt.Sprintf(`package cors_test

import ("testing"; "github.com/jub0bs/cors")

// The two configurations differ only by: %s. They must answer every request identically.
func TestC15Replay(t *testing.T) {
	_, err1 := cors.NewMiddleware(%s)
	_, err2 := cors.NewMiddleware(%s)
	t.Log(err1, err2)
}
`, k.How, k.Base.GoLiteral(), k.Twin.GoLiteral())
}

func canonicalName(s string) string { return http.CanonicalHeaderKey(s) }

// c15Twins generates the twins of one list: all permutations (len <= 4; rotations and reversal beyond),
// each single duplication, and element-wise spelling variants.
func c15Twins(list []string, variants func(string) []string, extra []string) (out [][]string, how []string) {
	n := len(list)
	if n == 0 {
		for _, e := range extra {
			out = append(out, []string{e})
			how = append(how, "add "+e)
		}
		return
	}
	if n <= 4 {
		for _, p := range vlib.Permutations(n)[1:] {
			t := make([]string, n)
			for i, j := range p {
				t[i] = list[j]
			}
			out = append(out, t)
			how = append(how, fmt.Sprintf("permutation %v", p))
		}
	} else {
		for r := 1; r < n; r++ {
			out = append(out, append(append([]string{}, list[r:]...), list[:r]...))
			how = append(how, fmt.Sprintf("rotation %d", r))
		}
		rev := make([]string, n)
		for i := range list {
			rev[n-1-i] = list[i]
		}
		out = append(out, rev)
		how = append(how, "reversal")
		// interleavings: element i*k mod n for the strides k coprime to n
		for _, k := range []int{2, 3, 5, 7} {
			g, a := n, k
			for a != 0 {
				g, a = a, g%a
			}
			if g != 1 || k >= n {
				continue
			}
			t := make([]string, n)
			for i := range t {
				t[i] = list[i*k%n]
			}
			out = append(out, t)
			how = append(how, fmt.Sprintf("stride %d", k))
		}
	}
	for i := 0; i < n; i++ {
		for _, pos := range []int{0, n} {
			t := append([]string{}, list[:pos]...)
			t = append(t, list[i])
			t = append(t, list[pos:]...)
			out = append(out, t)
			how = append(how, fmt.Sprintf("duplicate element %d at position %d", i, pos))
		}
	}
	if variants != nil {
		for i := 0; i < n; i++ {
			for _, v := range variants(list[i]) {
				if v == list[i] {
					continue
				}
				t := append([]string{}, list...)
				t[i] = v
				out = append(out, t)
				how = append(how, fmt.Sprintf("spell element %d as %q", i, v))
			}
		}
	}
	for _, e := range extra {
		for _, pos := range []int{0, n} {
			t := append([]string{}, list[:pos]...)
			t = append(t, e)
			t = append(t, list[pos:]...)
			out = append(out, t)
			how = append(how, fmt.Sprintf("add %s at position %d", e, pos))
		}
	}
	return
}

func c15Bases(c *vlib.Ctx) []CfgLit {
	os := [][]string{
		{"https://a.b"}, {"*"}, {"https://*.a.b", "https://c.a.b", "https://a.b:*", "https://a.b"}, {"https://c.a.b", "https://*.a.b", "https://*.b"},
		{"http://[::1]:9090", "http://127.0.0.1:*", "http://127.0.0.1:8080", "https://a.b."}, {"*", "https://a.b"}, {"https://xa.b", "https://a.b", "https://*.a.b:*", "https://*.xa.b"},
		{"https://a.b:8080", "https://a.b:*", "https://a.b:81", "http://a.b:*", "https://*.a.b:81"},
		{"https://*.a.b", "https://c.a.b:81", "https://d.c.a.b:*", "http://c.a.b:81"},
		richOrigins,
	}
	ms := [][]string{nil, {"PUT", "patch", "DELETE"}, {"*", "PUT"}, {"QUERY", "query", "Query", "GET"}, richMethods}
	qs := [][]string{nil, {"X-B", "x-a", "X-R", "X-S"}, {"*", "Authorization"}, {"*", "Authorization", "X-B", "x-a"}, {"Authorization", "X-A"}, {"*"}, append([]string{"Authorization"}, richReqHdrs...)}
	rs := [][]string{nil, {"X-R", "x-q", "X-S"}, {"*", "X-R"}, richResHdrs}
	var out []CfgLit
	for _, o := range os {
		for _, m := range ms {
			for _, q := range qs {
				for _, r := range rs {
					for _, cred := range []bool{false, true} {
						if !c.Thorough() && cred && (len(m) == 0 || len(r) == 0) {
							continue
						}
						if !c.Thorough() {
							// quick tier: the long realistic lists appear all together, or one at a time next to
							// empty other lists
							rich, nonEmpty := 0, 0
							for _, l := range [][]string{o, m, q, r} {
								if len(l) >= 5 {
									rich++
								} else if len(l) > 1 {
									nonEmpty++
								}
							}
							if rich == 2 || rich == 3 || rich == 1 && nonEmpty > 0 {
								continue
							}
						}
						out = append(out, CfgLit{Origins: o, Methods: m, RequestHeaders: q, ResponseHeaders: r, Credentialed: cred, TolInsecure: true, TolPSL: true, MaxAge: 30})
					}
				}
			}
		}
	}
	// more distinct schemes than a small fixed-size table holds; a public suffix nested below a domain that is not one
	out = append(out,
		CfgLit{Origins: []string{"wss://e.x", "ws://e.x", "https://e.x", "http://e.x", "app://e.x", "ionic://e.x", "capacitor://e.x"}},
		CfgLit{Origins: []string{"https://*.s3.amazonaws.com", "https://*.amazonaws.com"}},
		CfgLit{Origins: []string{"https://*.amazonaws.com:*", "https://*.s3.amazonaws.com:8443", "https://amazonaws.com"}},
		CfgLit{Origins: []string{"https://*.s3.amazonaws.com", "https://*.amazonaws.com"}, TolPSL: true})
	// long names in mixed case (case conversion has to reach every byte)
	longName := "X-" + strings.Repeat("Ab", 60)
	out = append(out,
		CfgLit{Origins: []string{"https://a.b"}, RequestHeaders: []string{longName, "X-B"}, ResponseHeaders: []string{longName + "-R"}},
		CfgLit{Origins: []string{"https://a.b"}, Credentialed: true, RequestHeaders: []string{"X-B", longName}, Methods: []string{"PUT"}})
	// long lists (a set implementation may change its representation with size): 9, 17 and 33 entries in one list,
	// the other lists short
	for _, n := range []int{9, 17, 33} {
		var names, meths, orgs []string
		for i := 0; i < n; i++ {
			names = append(names, fmt.Sprintf("X-H%02d", i))
			meths = append(meths, fmt.Sprintf("M%02d", i))
			orgs = append(orgs, fmt.Sprintf("https://h%02d.example", i))
		}
		out = append(out,
			CfgLit{Origins: []string{"https://a.b"}, RequestHeaders: names, MaxAge: 30},
			CfgLit{Origins: []string{"https://a.b"}, ResponseHeaders: names, Credentialed: true},
			CfgLit{Origins: []string{"https://a.b"}, Methods: meths},
			CfgLit{Origins: orgs, Methods: []string{"PUT"}})
	}
	return out
}

func checkC15(c *vlib.Ctx) (string, string) {
	ck := &Checker[c15Case]{C: c, Judge: c15Judge, Test: c15Test}
	rule := "every base configuration of a closed family x every twin obtained by permuting one list (all permutations up to length 4; rotations and reversal beyond, which is not exhaustive), duplicating one entry, re-spelling a header name (lower / UPPER / Canonical) or a normalisable method, or adding safelisted entries; base and twin must both be accepted and answer the derived request suite identically in both debug modes; non-trivial = distinct accepted (base, twin) pair"
	if ck.Replay() {
		return levelMC, rule
	}
	bases := c15Bases(c)
	hdrVariants := func(s string) []string {
		if s == "*" {
			return nil
		}
		return []string{strings.ToLower(s), strings.ToUpper(s), canonicalName(s)}
	}
	methodVariants := func(s string) []string {
		switch strings.ToUpper(s) {
		case "PUT", "DELETE", "GET", "POST", "HEAD", "OPTIONS":
			return []string{strings.ToLower(s), strings.ToUpper(s), s[:1] + strings.ToLower(s[1:])}
		}
		return nil
	}
	var capped bool
	c.ParRange(int64(len(bases)), 1, "C15 bases", func(i int64) {
		b := bases[i]
		if _, err := cors.NewMiddleware(b.Config()); err != nil {
			return
		}
		c.States.Add(1)
		emit := func(t CfgLit, how string) {
			c.Transitions.Add(1)
			c.Nontrivial.Add(1)
			ck.Try(c15Case{b, t, how})
		}
		tw, how := c15Twins(b.Origins, nil, nil)
		if len(b.Origins) > 4 {
			capped = true
		}
		for j := range tw {
			t := b
			t.Origins = tw[j]
			emit(t, "Origins: "+how[j])
		}
		tw, how = c15Twins(b.Methods, methodVariants, []string{"GET", "POST", "head"})
		for j := range tw {
			t := b
			t.Methods = tw[j]
			emit(t, "Methods: "+how[j])
		}
		tw, how = c15Twins(b.RequestHeaders, hdrVariants, nil)
		for j := range tw {
			t := b
			t.RequestHeaders = tw[j]
			emit(t, "RequestHeaders: "+how[j])
		}
		tw, how = c15Twins(b.ResponseHeaders, hdrVariants, []string{"Content-Type", "cache-control"})
		for j := range tw {
			t := b
			t.ResponseHeaders = tw[j]
			emit(t, "ResponseHeaders: "+how[j])
		}
		// all lists reversed at once
		rev := func(l []string) []string {
			r := make([]string, len(l))
			for x := range l {
				r[len(l)-1-x] = l[x]
			}
			if len(l) == 0 {
				return nil
			}
			return r
		}
		t := b
		t.Origins, t.Methods, t.RequestHeaders, t.ResponseHeaders = rev(b.Origins), rev(b.Methods), rev(b.RequestHeaders), rev(b.ResponseHeaders)
		emit(t, "all lists reversed")
		c.SampleAt(i+1, func() any { return c15Case{b, t, "all lists reversed"} })
	})
	if capped {
		c.Cap("lists longer than 4 entries: rotations and reversal only (not all permutations)")
	}
	c.Set("base_configurations", len(bases))
	return levelMC, rule
}

func init() { registry["C15"] = checkC15 }
