package main

import (
	"fmt"
	"net/http"
	"reflect"
	"slices"

	"github.com/jub0bs/cors"
	"github.com/jub0bs/cors/internal/zzverif/vlib"
)

// C11 — preflights are answered by the middleware alone; everything else passes intact.

type c11Handler struct {
	Status  int                 `json:"status"` // 0: handler never calls WriteHeader
	Body    string              `json:"body,omitempty"`
	Hdr     map[string][]string `json:"hdr,omitempty"`      // set (replacing) before WriteHeader
	AddVary string              `json:"add_vary,omitempty"` // appended with Header().Add
	// Add: values appended with Header().Add (key, value pairs)
	Add [][2]string `json:"add,omitempty"`
	// Nested: after writing its headers the handler sends the same request through the same wrapped handler
	// with a fresh writer (a deterministic stand-in for an overlapping request), then finishes
	Nested bool `json:"nested,omitempty"`
}

type c11Case struct {
	Passthrough int                 `json:"passthrough"`     // 0 configured, 1 zero value, 2 Reconfigure(nil) after NewMiddleware
	Route       int                 `json:"route,omitempty"` // construction route of a configured middleware (see suite.go)
	Cfg         CfgLit              `json:"config"`
	Debug       bool                `json:"debug"`
	Req         vlib.Req            `json:"request"`
	Handler     c11Handler          `json:"handler"`
	Preset      map[string][]string `json:"preset,omitempty"`
	// Stacked: what the middleware wraps is itself the Wrap result of another middleware (a zero-value one, i.e. the
	// identity); and the whole is wrapped once more by a third zero-value middleware
	Stacked bool `json:"stacked_on_passthrough_middlewares,omitempty"`
}

type c11Inner struct {
	self       http.Handler // the wrapped handler (for nested dispatch)
	depth      int
	nested     int
	damaged    string
	spec       c11Handler
	calls      int
	reqs       []*http.Request
	ws         []http.ResponseWriter
	atEntry    http.Header
	reqAtEntry http.Header // the request's header map when the handler was entered
	atExit     http.Header
}

func cloneHeader(h http.Header) http.Header {
	c := make(http.Header, len(h))
	for k, v := range h {
		c[k] = append([]string(nil), v...)
	}
	return c
}

func (in *c11Inner) ServeHTTP(w http.ResponseWriter, r *http.Request) {
	if in.depth > 0 {
		// nested (overlapping) request: same behaviour with a different marker, not counted as a top-level call
		in.nested++
		for _, kv := range in.spec.Add {
			w.Header().Add(kv[0], kv[1]+"-nested")
		}
		for k, v := range in.spec.Hdr {
			w.Header()[k] = append([]string(nil), v...)
		}
		return
	}
	in.calls++
	in.reqs = append(in.reqs, r)
	in.ws = append(in.ws, w)
	if in.calls == 1 {
		in.atEntry = cloneHeader(w.Header())
		in.reqAtEntry = cloneHeader(r.Header)
	}
	for k, v := range in.spec.Hdr {
		w.Header()[k] = append([]string(nil), v...)
	}
	if in.spec.AddVary != "" {
		w.Header().Add("Vary", in.spec.AddVary)
	}
	for _, kv := range in.spec.Add {
		w.Header().Add(kv[0], kv[1])
	}
	if in.spec.Nested && in.self != nil {
		mine := cloneHeader(w.Header())
		in.depth++
		r2 := r.Clone(r.Context())
		in.self.ServeHTTP(vlib.NewRec(), r2)
		in.depth--
		if !reflect.DeepEqual(map[string][]string(mine), map[string][]string(w.Header())) {
			in.damaged = fmt.Sprintf("%v -> %v", mine, w.Header())
		}
	}
	if in.spec.Status != 0 {
		w.WriteHeader(in.spec.Status)
	}
	if in.spec.Body != "" {
		w.Write([]byte(in.spec.Body))
	}
	if in.calls == 1 {
		in.atExit = cloneHeader(w.Header())
	}
}

func c11Judge(k c11Case) *vlib.Failure {
	var bm built
	switch k.Passthrough {
	case 1:
		bm = built{m: new(cors.Middleware)}
		bm.m.SetDebug(k.Debug) // documented no-op on a passthrough middleware
	case 2:
		var err error
		bm, err = buildViaH(k.Route, k.Cfg, k.Debug)
		if err != nil {
			return vlib.Failf("configuration of the C11 alphabet rejected: %v", err)
		}
		if err := bm.m.Reconfigure(nil); err != nil {
			return vlib.Failf("Reconfigure(nil) failed: %v", err)
		}
		bm.m.SetDebug(!k.Debug) // documented no-ops on a passthrough middleware
		bm.m.SetDebug(k.Debug)
	default:
		var err error
		bm, err = buildViaH(k.Route, k.Cfg, k.Debug, k.Req)
		if err != nil {
			return vlib.Failf("configuration of the C11 alphabet rejected (route %q): %v", routeNames[k.Route], err)
		}
	}
	inner := &c11Inner{spec: k.Handler}
	h := bm.wrap(inner)
	if k.Stacked {
		h = new(cors.Middleware).Wrap(bm.wrap(new(cors.Middleware).Wrap(inner)))
	}
	inner.self = h
	rec := vlib.NewRec()
	// the earlier link of the chain stores value slices that it keeps (w.Header()[k] = v): the middleware may replace
	// a header, it may not write through into storage that is not its own
	kept := map[string][]string{}
	for kk, v := range k.Preset {
		kept[kk] = append([]string(nil), v...)
		rec.H[kk] = kept[kk][:len(v):len(v)]
	}
	req := k.Req.HTTP()
	sent := map[string][]string{}
	for kk, v := range req.Header {
		sent[kk] = append([]string(nil), v...)
	}
	h.ServeHTTP(rec, req)
	for kk, v := range k.Preset {
		if !slices.Equal(kept[kk], v) {
			return vlib.Failf("the value slice an earlier handler had stored under %s held %q; after the exchange the same slice holds %q (the middleware wrote into storage it does not own)", kk, v, kept[kk])
		}
	}
	// the request the handler is entered with (for a preflight: the request after the exchange) carries the headers
	// that came in. (What the handler's own writes do afterwards is not judged: the library stores a sub-slice of the
	// request's Origin values as Access-Control-Allow-Origin, so a handler that Adds to that header of a request with
	// two Origin lines overwrites the second one itself.)
	seen := req.Header
	if inner.reqAtEntry != nil {
		seen = inner.reqAtEntry
	}
	for kk, v := range sent {
		if !slices.Equal(seen[kk], v) {
			return vlib.Failf("request header %s was %q when the request came in; the wrapped handler (or, for a preflight, the caller afterwards) sees %q", kk, v, seen[kk])
		}
	}
	configured := k.Passthrough == 0
	isPreflight := configured && k.Req.Method == "OPTIONS" && len(k.Req.Hdr["Origin"]) > 0 && len(k.Req.Hdr["Access-Control-Request-Method"]) > 0
	if isPreflight {
		if inner.calls != 0 {
			return vlib.Failf("preflight reached the wrapped handler (%d calls)", inner.calls)
		}
		if len(rec.Body) != 0 {
			return vlib.Failf("preflight response has a body %q", rec.Body)
		}
		if rec.WroteN > 1 {
			return vlib.Failf("preflight: the middleware called WriteHeader %d times", rec.WroteN)
		}
		// headers set earlier in the chain survive
		for kk, v := range k.Preset {
			got := rec.H[kk]
			if kk == "Vary" {
				if len(got) < len(v) || !reflect.DeepEqual(got[:len(v)], v) {
					return vlib.Failf("preflight: pre-set Vary %q not preserved: %q", v, got)
				}
				continue
			}
			if kk == "Access-Control-Allow-Origin" || kk == "Access-Control-Allow-Credentials" || kk == "Access-Control-Expose-Headers" ||
				kk == "Access-Control-Allow-Methods" || kk == "Access-Control-Allow-Headers" || kk == "Access-Control-Max-Age" || kk == "Access-Control-Allow-Private-Network" {
				continue
			}
			if !reflect.DeepEqual(got, v) {
				return vlib.Failf("preflight: pre-set header %s changed from %q to %q", kk, v, got)
			}
		}
		return nil
	}
	if inner.calls != 1 {
		return vlib.Failf("request that is not a preflight reached the wrapped handler %d times (want exactly once)", inner.calls)
	}
	if inner.reqs[0] != req {
		return vlib.Failf("wrapped handler received a different *http.Request")
	}
	if w, ok := inner.ws[0].(*vlib.Rec); !ok || w != rec {
		return vlib.Failf("wrapped handler received a different ResponseWriter (%T)", inner.ws[0])
	}
	// header map at handler entry = pre-set headers, except Vary extended and ACAO/ACAC/ACEH set
	keys := map[string]bool{}
	for kk := range k.Preset {
		keys[kk] = true
	}
	for kk := range inner.atEntry {
		keys[kk] = true
	}
	for kk := range keys {
		pre, got := k.Preset[kk], inner.atEntry[kk]
		switch {
		case !configured:
			if !reflect.DeepEqual(http.Header{kk: pre}, http.Header{kk: got}) && !(len(pre) == 0 && len(got) == 0) {
				return vlib.Failf("passthrough middleware changed response header %s from %q to %q before the handler ran", kk, pre, got)
			}
		case kk == "Vary":
			if len(got) < len(pre) || !reflect.DeepEqual(append([]string{}, got[:len(pre)]...), append([]string{}, pre...)) {
				return vlib.Failf("pre-set Vary %q not preserved as a prefix: %q", pre, got)
			}
		case kk == "Access-Control-Allow-Origin" || kk == "Access-Control-Allow-Credentials" || kk == "Access-Control-Expose-Headers":
			// may be set by the middleware
		default:
			if !(len(pre) == 0 && len(got) == 0) && !reflect.DeepEqual(pre, got) {
				return vlib.Failf("middleware changed response header %s from %q to %q before the handler ran", kk, pre, got)
			}
		}
	}
	if inner.damaged != "" {
		return vlib.Failf("the response headers of this request were changed while another request went through the same middleware: %s", inner.damaged)
	}
	for _, kv := range k.Handler.Add {
		found := false
		for _, v := range rec.H[kv[0]] {
			if v == kv[1] {
				found = true
			}
		}
		if !found {
			return vlib.Failf("handler added %s: %q, client gets %q", kv[0], kv[1], rec.H[kv[0]])
		}
	}
	// after the handler returned nothing changes any more
	if !reflect.DeepEqual(map[string][]string(inner.atExit), map[string][]string(rec.H)) {
		return vlib.Failf("response headers changed after the wrapped handler returned: %v -> %v", inner.atExit, rec.H)
	}
	// effective status as the client sees it (net/http sends 200 when nobody called WriteHeader)
	eff := func(st int) int {
		if st == 0 {
			return 200
		}
		return st
	}
	if eff(rec.Status) != eff(k.Handler.Status) {
		return vlib.Failf("status recorded %d, the handler left %d", eff(rec.Status), eff(k.Handler.Status))
	}
	if string(rec.Body) != k.Handler.Body {
		return vlib.Failf("body recorded %q, the handler wrote %q", rec.Body, k.Handler.Body)
	}
	// the handler's own header values reach the client
	for kk, v := range k.Handler.Hdr {
		if !reflect.DeepEqual(rec.H[kk], v) {
			return vlib.Failf("handler set %s=%q, client gets %q", kk, v, rec.H[kk])
		}
	}
	return nil
}

func c11Test(k c11Case) string {
	return fmt.Sprintf(`package cors_test

// Configuration %s (passthrough kind %d, debug %t), built through route: %s; request %s; the wrapped handler sets %v, status %d,
// body %q; response headers present before the middleware runs: %v.
// Expectation: the handler runs exactly once (never for a preflight on a configured middleware) with the very
// same request and writer, and its output reaches the client unchanged.
`, k.Cfg.GoLiteral(), k.Passthrough, k.Debug, routeNames[k.Route], k.Req, k.Handler.Hdr, k.Handler.Status, k.Handler.Body, k.Preset)
}

func checkC11(c *vlib.Ctx) (string, string) {
	ck := &Checker[c11Case]{C: c, Judge: c11Judge, Test: c11Test}
	rule := "full product configuration (incl. both passthrough forms) x debug x request (method x Origin presence/emptiness x ACRM presence/emptiness x ACRH x ACRPN) x inner handler (status x body x headers) x pre-set response headers on the real middleware with recording handler and writer; non-trivial = distinct case in which the middleware itself answered (preflight)"
	if ck.Replay() {
		return levelMC, rule
	}
	cfgs := []CfgLit{
		{Origins: []string{"*"}, Methods: []string{"PUT"}, ResponseHeaders: []string{"X-R"}},
		{Origins: []string{"https://a.example"}, Credentialed: true, Methods: []string{"PUT"}, RequestHeaders: []string{"X-A"}, ResponseHeaders: []string{"X-R"}, MaxAge: 30},
		{Origins: []string{"https://a.example"}, PNANoCORS: true, Methods: []string{"PUT"}},
		{Origins: []string{"https://a.example", "https://b.example"}, PNA: true, Methods: []string{"*"}, RequestHeaders: []string{"*"}, Status: 200},
		{Origins: []string{"https://a.example", "*"}, Methods: []string{"PUT"}, ResponseHeaders: []string{"X-R", "X-S"}},
		{Origins: []string{"https://a.example"}, Methods: []string{"PUT", "PATCH", "DELETE"}, RequestHeaders: []string{"X-A", "X-B", "X-C"}, ResponseHeaders: []string{"X-R", "X-S", "X-T"}, MaxAge: 30},
	}
	type cd struct {
		pass  int
		lit   CfgLit
		dbg   bool
		route int
	}
	var cds []cd
	cds = append(cds, cd{pass: 1, lit: cfgs[0]}, cd{pass: 1, lit: cfgs[0], dbg: true}, cd{pass: 2, lit: cfgs[1]}, cd{pass: 2, lit: cfgs[1], dbg: true}, cd{pass: 2, lit: cfgs[2], route: 3})
	for i, l := range cfgs {
		cds = append(cds, cd{0, l, false, 0}, cd{0, l, true, 0})
		// every other construction route, spread over the configurations and debug modes
		for r := 1; r < nRoutes; r++ {
			cds = append(cds, cd{0, l, (i+r)%2 == 0, r})
		}
	}
	methods := []string{"OPTIONS", "GET", "options", "PUT", "HEAD", "POST"}
	origins := [][]string{nil, {}, {""}, {"https://a.example"}, {"https://evil.example"}, {"https://a.example", "https://b.example"}}
	acrms := [][]string{nil, {}, {""}, {"PUT"}, {"DELETE"}, {" "}, {"PUT  "}, {"\t\tPUT"}, {"", "PUT"}}
	acrhs := [][]string{nil, {"x-a"}, {"x-z"}}
	acrpns := [][]string{nil, {"true"}}
	var handlers []c11Handler
	for _, st := range []int{0, 200, 404, 204} {
		for _, body := range []string{"", "x"} {
			for _, hd := range []map[string][]string{nil, {"Access-Control-Allow-Origin": {"https://own.example"}}, {"Access-Control-Expose-Headers": {"x-own"}, "Content-Type": {"text/plain"}}, {"X-Arbitrary": {"1", "2"}}} {
				for _, av := range []string{"", "Accept-Language"} {
					if st == 204 && body != "" {
						continue
					}
					handlers = append(handlers, c11Handler{Status: st, Body: body, Hdr: hd, AddVary: av})
				}
			}
		}
	}
	for _, nested := range []bool{false, true} {
		for _, add := range [][][2]string{
			{{"Access-Control-Expose-Headers", "X-Mine"}}, {{"Access-Control-Allow-Origin", "https://mine.example"}}, {{"Vary", "X-Mine"}, {"Access-Control-Allow-Credentials", "mine"}},
			{{"Access-Control-Expose-Headers", "X-Mine"}, {"Access-Control-Expose-Headers", "X-Mine2"}, {"X-Arbitrary", "1"}},
		} {
			handlers = append(handlers, c11Handler{Status: 200, Add: add, Nested: nested})
		}
	}
	handlers = append(handlers, c11Handler{Status: 200, Hdr: map[string][]string{"X-Arbitrary": {"1"}}, Nested: true})
	presets := []map[string][]string{nil, {"Vary": {"before"}}, {"X-Up": {"1"}}, {"Access-Control-Allow-Origin": {"https://upstream.example"}, "Vary": {"a", "b"}}, {"Access-Control-Max-Age": {"9"}, "Set-Cookie": {"a=b"}},
		{"Access-Control-Allow-Origin": {"https://upstream.example"}, "Access-Control-Allow-Credentials": {"true"}, "Access-Control-Expose-Headers": {"x-upstream", "x-up2"}}}
	prod := vlib.Product{Sizes: []int{len(cds), len(methods), len(origins), len(acrms), len(acrhs), len(acrpns), len(handlers), len(presets)}}
	c.ParRange(prod.Count(), 256, "C11 product", func(i int64) {
		var tmp [8]int
		ix := prod.At(i, tmp[:0])
		if cds[ix[0]].route > 0 && !c.Thorough() && (ix[6]+ix[7])%4 != 0 {
			return // quick tier: the additional construction routes see every fourth (handler, preset) combination
		}
		hdr := map[string][]string{}
		if v := origins[ix[2]]; v != nil {
			hdr["Origin"] = v
		}
		if v := acrms[ix[3]]; v != nil {
			hdr["Access-Control-Request-Method"] = v
		}
		if v := acrhs[ix[4]]; v != nil {
			hdr["Access-Control-Request-Headers"] = v
		}
		if v := acrpns[ix[5]]; v != nil {
			hdr["Access-Control-Request-Private-Network"] = v
		}
		k := c11Case{Passthrough: cds[ix[0]].pass, Route: cds[ix[0]].route, Cfg: cds[ix[0]].lit, Debug: cds[ix[0]].dbg, Req: vlib.Req{Method: methods[ix[1]], Hdr: hdr}, Handler: handlers[ix[6]], Preset: presets[ix[7]]}
		ck.Try(k)
		if k.Passthrough == 0 && k.Req.Method == "OPTIONS" && len(hdr["Origin"]) > 0 && len(hdr["Access-Control-Request-Method"]) > 0 {
			c.Nontrivial.Add(1)
		}
		c.SampleAt(i+1, func() any { return k })
	})
	// dictionary pass: whether a request is a preflight, and what reaches the handler, does not depend on any other
	// request header: 27 request classes x every entry of the request-header dictionary, on every configuration
	// (fresh middleware) in both debug modes and on both kinds of passthrough middleware
	var dcds []cd
	for _, x := range cds {
		if x.route == 0 {
			dcds = append(dcds, x)
		}
	}
	var dreqs []vlib.Req
	for _, m := range []string{"OPTIONS", "GET", "options"} {
		for _, o := range [][]string{nil, {"https://a.example"}, {"https://evil.example"}} {
			for _, a := range [][]string{nil, {"PUT"}, {""}} {
				hdr := map[string][]string{}
				if o != nil {
					hdr["Origin"] = o
				}
				if a != nil {
					hdr["Access-Control-Request-Method"] = a
				}
				for _, e := range requestHeaderDictionary {
					dreqs = append(dreqs, withDictionaryHeader(vlib.Req{Method: m, Hdr: hdr}, e))
				}
			}
		}
	}
	dp := vlib.Product{Sizes: []int{len(dcds), len(dreqs)}}
	c.ParRange(dp.Count(), 256, "C11 dictionary headers", func(i int64) {
		var tmp [2]int
		ix := dp.At(i, tmp[:0])
		x := dcds[ix[0]]
		ck.Try(c11Case{Passthrough: x.pass, Cfg: x.lit, Debug: x.dbg, Req: dreqs[ix[1]], Handler: handlers[1]})
	})
	c.Set("dictionary_cells", dp.Count())
	// request attributes that are not headers (protocol, TLS, request target forms such as `OPTIONS *`, contexts):
	// the same request classes, every attribute, every configuration, three handlers
	var areqs []vlib.Req
	for _, m := range []string{"OPTIONS", "GET", "options"} {
		for _, o := range [][]string{nil, {"https://a.example"}, {"https://evil.example"}} {
			for _, a := range [][]string{nil, {"PUT"}, {""}} {
				for _, at := range vlib.Attrs {
					hdr := map[string][]string{}
					if o != nil {
						hdr["Origin"] = o
					}
					if a != nil {
						hdr["Access-Control-Request-Method"] = a
					}
					areqs = append(areqs, vlib.Req{Method: m, Hdr: hdr, Attr: at})
				}
			}
		}
	}
	ap := vlib.Product{Sizes: []int{len(dcds), len(areqs), 3}}
	c.ParRange(ap.Count(), 256, "C11 request attributes", func(i int64) {
		var tmp [3]int
		ix := ap.At(i, tmp[:0])
		x := dcds[ix[0]]
		ck.Try(c11Case{Passthrough: x.pass, Cfg: x.lit, Debug: x.dbg, Req: areqs[ix[1]], Handler: handlers[ix[2]]})
		ck.Try(c11Case{Passthrough: x.pass, Cfg: x.lit, Debug: x.dbg, Req: areqs[ix[1]], Handler: handlers[ix[2]], Stacked: true})
	})
	c.Set("attribute_cells", ap.Count())
	c.States.Add(c.Evaluations.Load())
	c.Transitions.Add(c.Evaluations.Load())
	c.Set("product_cells_before_quick_tier_thinning", prod.Count())
	c.Set("product_sizes", map[string]int{"config_x_debug_x_route": len(cds), "methods": len(methods), "origin_lists": len(origins), "acrm_lists": len(acrms), "acrh": len(acrhs), "acrpn": len(acrpns), "handlers": len(handlers), "presets": len(presets)})
	return levelMC, rule
}

func init() { registry["C11"] = checkC11 }
