package main

import (
	"fmt"
	"reflect"
	"sync"

	"github.com/jub0bs/cors"
	"github.com/jub0bs/cors/internal/zzverif/vlib"
)

// C06 — Config() round-trips: Reconfigure(Config()) is a no-op and the constructors agree.
// E-SEQ with the one-operation alphabet RT = m.Reconfigure(m.Config()), started from every accepted
// configuration of a closed family; differential oracles only.

type c06Case struct {
	Cfg CfgLit `json:"config"`
	// Shape 1: the lists handed over are windows of one backing array with spare capacity, unused ones empty non-nil
	Shape int `json:"slice_shape,omitempty"`
}

func cfgEqual(a, b *cors.Config) bool {
	if a == nil || b == nil {
		return a == b
	}
	norm := func(s []string) []string {
		if len(s) == 0 {
			return nil
		}
		return s
	}
	return reflect.DeepEqual(norm(a.Origins), norm(b.Origins)) && a.Credentialed == b.Credentialed &&
		reflect.DeepEqual(norm(a.Methods), norm(b.Methods)) && reflect.DeepEqual(norm(a.RequestHeaders), norm(b.RequestHeaders)) &&
		a.MaxAgeInSeconds == b.MaxAgeInSeconds && reflect.DeepEqual(norm(a.ResponseHeaders), norm(b.ResponseHeaders)) &&
		a.PreflightSuccessStatus == b.PreflightSuccessStatus && a.PrivateNetworkAccess == b.PrivateNetworkAccess &&
		a.PrivateNetworkAccessInNoCORSModeOnly == b.PrivateNetworkAccessInNoCORSModeOnly &&
		a.DangerouslyTolerateInsecureOrigins == b.DangerouslyTolerateInsecureOrigins &&
		a.DangerouslyTolerateSubdomainsOfPublicSuffixes == b.DangerouslyTolerateSubdomainsOfPublicSuffixes
}

// c06Bystander is an unrelated middleware of the same process. Its Config() is called right after every Config()
// call whose result c06Judge keeps: a result is the caller's own value and does not change when somebody else asks.
var c06Bystander = sync.OnceValue(func() *cors.Middleware {
	m, err := cors.NewMiddleware(cors.Config{Origins: []string{"https://bystander-1.example", "http://bystander-2.example:8080", "https://*.bystander-3.example"},
		Methods: []string{"BYSTAND"}, RequestHeaders: []string{"X-Bystander"}, ResponseHeaders: []string{"X-Bystander-R"}, ExtraConfig: cors.ExtraConfig{DangerouslyTolerateInsecureOrigins: true}})
	if err != nil {
		panic(err)
	}
	return m
})

func c06Keep(m *cors.Middleware) *cors.Config {
	c := m.Config()
	c06Bystander().Config()
	return c
}

func c06Judge(k c06Case) *vlib.Failure {
	cfg := k.Cfg.Config()
	if k.Shape == 1 {
		cfg = k.Cfg.ConfigAlt()
	}
	m1, err := cors.NewMiddleware(cfg)
	if err != nil {
		return nil // not an accepted configuration
	}
	suite := suiteFor(k.Cfg)
	want := observeBoth(m1, suite)
	// what wrapped handlers do to the header slices they can reach is their own request's business: the middleware and
	// its Config() must be as before
	hs := m1.Wrap(scribbler{})
	for _, r := range suite {
		hs.ServeHTTP(vlib.NewRec(), r.HTTP())
	}
	if i := firstDiff(want, observeOnOff(m1, suite)); i >= 0 {
		return vlib.Failf("after the suite was served once with a handler that overwrites in place the header slices it can reach, request #%d (%s, debug=%t) is answered differently", i%len(suite), suite[i%len(suite)], i >= len(suite))
	}
	c1 := c06Keep(m1)
	if c1 == nil {
		return vlib.Failf("Config() of a configured middleware is nil")
	}
	// (i) the three constructions agree
	m2, err := cors.NewMiddleware(*c1)
	if err != nil {
		return vlib.Failf("NewMiddleware(*m.Config()) fails: %v (Config() = %+v)", err, *c1)
	}
	if i := firstDiff(want, observeBoth(m2, suite)); i >= 0 {
		return vlib.Failf("middleware built from Config() answers request #%d (%s, debug=%t) differently; Config() = %+v", i%len(suite), suite[i%len(suite)], i >= len(suite), *c1)
	}
	m3 := new(cors.Middleware)
	// routes are commonly built first and the configuration loaded later: handlers obtained from Wrap while the
	// middleware is still a passthrough one follow it like any other (observe uses them from here on)
	longLived(m3)
	// the very same Config value that NewMiddleware received (by value: its slices are shared) goes to Reconfigure
	if err := m3.Reconfigure(&cfg); err != nil {
		return vlib.Failf("zero-value middleware rejects a configuration that NewMiddleware accepts: %v", err)
	}
	if i := firstDiff(want, observeBoth(m3, suite)); i >= 0 {
		return vlib.Failf("zero value + Reconfigure answers request #%d (%s, debug=%t) differently from NewMiddleware", i%len(suite), suite[i%len(suite)], i >= len(suite))
	}
	// (ii) RT succeeds and changes no response; (iii) Config() is constant from the second element on
	chain := []*cors.Config{c1}
	for step := 1; step <= 3; step++ {
		if err := m1.Reconfigure(m1.Config()); err != nil {
			return vlib.Failf("m.Reconfigure(m.Config()) fails at round trip %d: %v (Config() = %+v)", step, err, *chain[len(chain)-1])
		}
		// debug mode is on here (observeBoth left it on) and the round trip must have kept it on
		if i := firstDiff(want, observeOnOff(m1, suite)); i >= 0 {
			return vlib.Failf("round trip %d changed the answer to request #%d (%s, debug=%t)", step, i%len(suite), suite[i%len(suite)], i >= len(suite))
		}
		chain = append(chain, c06Keep(m1))
	}
	for i := 2; i < len(chain); i++ {
		if !cfgEqual(chain[1], chain[i]) {
			return vlib.Failf("Config() still changes after one round trip: %+v then %+v", *chain[1], *chain[i])
		}
	}
	// (iv) Config() always describes the current state, whatever was asked before: via passthrough and via another
	// configuration, then back
	stable := chain[len(chain)-1]
	if err := m1.Reconfigure(nil); err != nil {
		return vlib.Failf("Reconfigure(nil) fails: %v", err)
	}
	if c := m1.Config(); c != nil {
		return vlib.Failf("Config() of a middleware that was just made passthrough is %+v, want nil", *c)
	}
	if err := m1.Reconfigure(m1.Config()); err != nil || m1.Config() != nil {
		return vlib.Failf("Reconfigure(Config()) on a passthrough middleware: err=%v, Config()=%v (want nil, nil)", err, m1.Config())
	}
	rewrapLongLived(m1, 1) // a handler obtained during the passthrough interlude
	other := routeOther.Config()
	if err := m1.Reconfigure(&other); err != nil {
		return vlib.Failf("auxiliary configuration rejected: %v", err)
	}
	mo, _ := cors.NewMiddleware(routeOther.Config())
	if mo != nil && !cfgEqual(m1.Config(), mo.Config()) {
		return vlib.Failf("after Reconfigure to another configuration Config() = %+v, a fresh middleware for it says %+v", *m1.Config(), *mo.Config())
	}
	if err := m1.Reconfigure(stable); err != nil {
		return vlib.Failf("Reconfigure with an earlier Config() result fails: %v", err)
	}
	m1.SetDebug(true) // passthrough switched it off; from here on as above
	other2 := routeOther.Config()
	if err := m1.Reconfigure(&other2); err != nil {
		return vlib.Failf("auxiliary configuration rejected: %v", err)
	}
	if err := m1.Reconfigure(stable); err != nil {
		return vlib.Failf("Reconfigure with an earlier Config() result fails: %v", err)
	}
	if i := firstDiff(want, observeOnOff(m1, suite)); i >= 0 {
		return vlib.Failf("after passthrough, another configuration and back (using an earlier Config() result) request #%d (%s, debug=%t) is answered differently", i%len(suite), suite[i%len(suite)], i >= len(suite))
	}
	if !cfgEqual(stable, m1.Config()) {
		return vlib.Failf("Config() after coming back is %+v, before it was %+v", *m1.Config(), *stable)
	}
	return nil
}

func c06Test(k c06Case) string {
	return fmt.Sprintf(`package cors_test

import ("testing"; "github.com/jub0bs/cors")

func TestC06Replay(t *testing.T) {
	m, err := cors.NewMiddleware(%s)
	if err != nil { t.Skip(err) }
	for i := 0; i < 3; i++ {
		c := m.Config()
		if err := m.Reconfigure(c); err != nil { t.Fatalf("round trip %%d: %%v (Config() = %%+v)", i, err, *c) }
	}
}
`, k.Cfg.GoLiteral())
}

// c06Family returns the configurations of the closed family (accepted or not; rejection is decided by the
// code under test and counted).
func c06Family(c *vlib.Ctx) []CfgLit {
	oatoms := []string{"https://a.b", "https://*.a.b", "https://a.b:*", "https://*.a.b:*", "https://c.a.b", "https://*.b", "http://1.2.3.4", "http://127.0.0.1:8080",
		"http://[::1]", "http://[::1]:9090", "http://[2001:db8::1]:*", "https://a.b.", "*", "https://a.b:8443",
		// IPv6 literals whose texts share tails that end inside a hextet (radix fragments without a colon)
		"http://[fe80::1]", "http://[fd80::1]:9090", "http://[1:db8::1]:*", "http://[::21]", "http://[1::1]", "http://xa.b", "https://*.xa.b",
		"https://xn--bcher-kva.example:49152", "app+v1.0://host-1.internal:10000", "https://*.host-1.internal:*",
		// a sibling host that differs in the byte left of a shared suffix (- sorts before .); schemes whose byte order and
		// length order disagree
		"https://c-a.b", "wss://a.b", "capacitor://a.b", "http://a.b"}
	olists := lists(oatoms, vlib.Pick(c, 2, 3))[1:]
	var out []CfgLit
	// A: every origin list in four contexts
	for _, ol := range olists {
		out = append(out,
			CfgLit{Origins: ol, TolPSL: true},
			CfgLit{Origins: ol, Credentialed: true, TolInsecure: true, TolPSL: true, Methods: []string{"PUT"}, RequestHeaders: []string{"X-B", "x-a"}},
			CfgLit{Origins: ol, PNA: true, TolInsecure: true, TolPSL: true, RequestHeaders: []string{"*", "Authorization"}},
			CfgLit{Origins: ol, TolPSL: true, Methods: []string{"*"}, RequestHeaders: []string{"*"}, ResponseHeaders: []string{"*"}, MaxAge: -1, Status: 200})
	}
	// B: a few origin lists x the product of all other fields
	ob := [][]string{{"https://a.b", "https://*.c.d:*"}, {"*"}, {"http://[::1]:9090", "http://e.f"}, richOrigins,
		// more distinct schemes than a small fixed-size table holds, listed in an order that differs from the sorted one
		{"wss://e.x", "ws://e.x", "https://e.x", "http://e.x", "app://e.x", "ionic://e.x", "capacitor://e.x", "a1://e.x:7"},
		{"x5://e.x", "x4://*.e.x", "x3://e.x:*", "x2://e.x:8", "x1://e.x"}}
	ms := [][]string{nil, {"GET", "POST"}, {"put", "PATCH"}, {"*"}, {"*", "PUT"}, richMethods}
	qs := [][]string{nil, {"X-B", "x-a"}, {"*"}, {"*", "Authorization"}, {"Authorization", "*"}, {"Authorization"}, richReqHdrs}
	rs := [][]string{nil, {"Content-Type", "Expires"}, {"X-R", "x-q"}, {"*"}, {"*", "X-R"}, richResHdrs}
	ages := vlib.Pick(c, []int{-1, 0, 600}, []int{-1, 0, 1, 600, 86400})
	sts := vlib.Pick(c, []int{0, 201}, []int{0, 200, 201, 204, 299})
	for _, o := range ob {
		for _, m := range ms {
			for _, q := range qs {
				for _, r := range rs {
					for _, a := range ages {
						for _, s := range sts {
							for _, cred := range []bool{false, true} {
								for pna := 0; pna < 3; pna++ {
									for _, tol := range []bool{false, true} {
										if !tol && !c.Thorough() && (cred || pna > 0) {
											continue
										}
										if !c.Thorough() {
											// quick tier: the long realistic lists appear all together, or one at a time with
											// the first max-age / status only
											rich := 0
											for _, l := range [][]string{o, m, q, r} {
												if len(l) >= 5 {
													rich++
												}
											}
											if rich == 2 || rich == 3 || rich == 1 && (a != ages[0] || s != sts[0]) {
												continue
											}
										}
										out = append(out, CfgLit{Origins: o, Methods: m, RequestHeaders: q, ResponseHeaders: r, MaxAge: a, Status: s, Credentialed: cred, PNA: pna == 1, PNANoCORS: pna == 2, TolInsecure: tol, TolPSL: tol})
									}
								}
							}
						}
					}
				}
			}
		}
	}
	// C: the two integers walked through their ranges (every boundary of every plausible narrower representation,
	// every accepted status) on two base configurations
	for _, base := range []CfgLit{
		{Origins: []string{"https://a.b"}, Methods: []string{"PUT"}, RequestHeaders: []string{"X-A"}},
		{Origins: []string{"https://a.b", "https://*.c.d:*"}, Credentialed: true, Methods: []string{"*"}, RequestHeaders: []string{"*"}, ResponseHeaders: []string{"X-R"}},
	} {
		for _, a := range []int{-1, 0, 1, 4, 5, 6, 9, 10, 99, 100, 127, 128, 255, 256, 999, 1000, 9999, 10000, 32767, 32768, 65535, 65536, 65537, 70000, 86399, 86400} {
			l := base
			l.MaxAge = a
			out = append(out, l)
		}
		for st := 200; st <= 299; st++ {
			l := base
			l.Status, l.MaxAge = st, 86400
			out = append(out, l)
		}
	}
	// D: single patterns at, and one byte below, several documented length limits at once (64-byte scheme, 253-byte host
	// with and without the trailing full stop of an absolute name, five-digit port, 63-byte labels), alone and next to
	// a short pattern
	for _, scheme := range []string{c01Scheme64, c01Scheme64[:63], "https"} {
		for _, host := range []string{c01Host253, c01Host253 + ".", c01Host253[:252], "*." + c01Host253[2:], "*." + c01Host253[2:] + ".", "api." + c01L63a + ".example.com", c01L63a + "." + c01L63b + ".io."} {
			for _, port := range []string{"", ":9", ":65535", ":10000", ":*"} {
				p := scheme + "://" + host + port
				out = append(out, CfgLit{Origins: []string{p}, TolInsecure: true, TolPSL: true}, CfgLit{Origins: []string{"https://a.b", p}, Credentialed: true, TolInsecure: true, TolPSL: true, Methods: []string{"PUT"}})
			}
		}
	}
	return out
}

func checkC06(c *vlib.Ctx) (string, string) {
	ck := &Checker[c06Case]{C: c, Judge: c06Judge, Test: c06Test}
	rule := "every accepted configuration of a closed family (all ordered origin lists up to the stated length over 21 atoms incl. IPv4/IPv6 literals, subsuming pairs, trailing dots and *, in four contexts; and the product of all other fields for three origin lists) x derived request suite x both debug modes: NewMiddleware(c), NewMiddleware(*Config()) and zero+Reconfigure(&c) agree; three successive Reconfigure(Config()) succeed, change no response, and Config() is constant from the second on; non-trivial = distinct accepted configuration"
	if ck.Replay() {
		return levelMC, rule
	}
	fam := c06Family(c)
	c.ParRange(int64(len(fam)), 8, "C06 family", func(i int64) {
		l := fam[i]
		if _, err := cors.NewMiddleware(l.Config()); err != nil {
			c.Evaluations.Add(1)
			return
		}
		c.Nontrivial.Add(1)
		c.States.Add(4) // m1 and the three states along the RT chain
		c.Transitions.Add(5)
		ck.Try(c06Case{l, int(i % 2)})
		c.SampleAt(i+1, func() any { return c06Case{l, int(i % 2)} })
	})
	// every accepted max-age value: Config() reports it, a middleware rebuilt from Config() renders it identically,
	// and the rendering is the decimal number (0 for -1, absent for 0)
	c.ParRange(86402, 512, "C06 max-age sweep", func(i int64) {
		a := int(i) - 1
		cfg := cors.Config{Origins: []string{"https://a.b"}, MaxAgeInSeconds: a}
		m, err := cors.NewMiddleware(cfg)
		if err != nil {
			ck.Report(c06Case{Cfg: CfgLit{Origins: cfg.Origins, MaxAge: a}}, vlib.Failf("MaxAgeInSeconds %d rejected: %v", a, err))
			return
		}
		got := m.Config()
		m2, err2 := cors.NewMiddleware(*got)
		req := vlib.Req{Method: "OPTIONS", Hdr: map[string][]string{"Origin": {"https://a.b"}, "Access-Control-Request-Method": {"GET"}}}
		r1 := vlib.Serve(m.Wrap(noopHandler), nil, req, nil)
		want := []string{fmt.Sprint(a)}
		if a == -1 {
			want = []string{"0"}
		} else if a == 0 {
			want = nil
		}
		bad := got.MaxAgeInSeconds != a || err2 != nil || fmt.Sprint(r1.Hdr["Access-Control-Max-Age"]) != fmt.Sprint(want)
		if !bad {
			r2 := vlib.Serve(m2.Wrap(noopHandler), nil, req, nil)
			bad = r1.Sig() != r2.Sig()
		}
		if bad {
			ck.Report(c06Case{Cfg: CfgLit{Origins: cfg.Origins, MaxAge: a}}, vlib.Failf("MaxAgeInSeconds %d: Config() reports %d, Access-Control-Max-Age is %q (want %q), rebuilding from Config(): err=%v", a, got.MaxAgeInSeconds, r1.Hdr["Access-Control-Max-Age"], want, err2))
		}
	})
	c.States.Add(86402)
	c.Transitions.Add(3 * 86402)
	c.Set("max_age_values_swept", 86402)
	c.Set("configurations_generated", len(fam))
	c.Set("configurations_accepted", c.Nontrivial.Load())
	return levelMC, rule
}

func init() { registry["C06"] = checkC06 }
