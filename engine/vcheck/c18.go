package main

import (
	"fmt"
	"net/http"
	"runtime"
	"sort"
	"strings"
	"testing"

	"github.com/jub0bs/cors/internal/zzverif/vlib"
)

// C18 — per-request allocations do not grow with attacker-controlled sizes.
// Metric oracle: testing.AllocsPerRun around ServeHTTP with a reusable recorder, sequentially (the counter is
// process-wide), over a grid configuration kind x debug x request kind x growing field x size ladder.

type c18Case struct {
	Cfg   CfgLit `json:"config"`
	Debug bool   `json:"debug"`
	Kind  string `json:"request_kind"` // preflight | actual | noncors
	Field string `json:"field"`        // origin-length | acrm-length | acrh-element-length | acrh-elements | acrh-lines | acrh-empty-elements
	Size  int    `json:"size"`
	Base  int    `json:"base_size"`       // smallest size of the ladder with the same response fingerprint (0: none)
	Route int    `json:"route,omitempty"` // construction route (suite.go)
	// Preset: the response header map already carries one value for Vary and for every Access-Control-* response
	// header when the middleware runs (an outer layer put them there)
	Preset bool `json:"preset_response_headers,omitempty"`
	// Cold: what is measured is the single first time the request is served after two garbage collections (pooled
	// scratch memory is gone then), against the same measurement for the base size
	Cold bool `json:"first_request_after_gc,omitempty"`
}

// c18ColdAllocs: heap allocations of one single ServeHTTP call right after two garbage collections (which empty every
// sync.Pool); the smallest of three such measurements. The recorder's own map has been sized by an earlier call.
func c18ColdAllocs(h http.Handler, r vlib.Req) (uint64, string) {
	rec := vlib.NewRec()
	best := ^uint64(0)
	var ms runtime.MemStats
	for rep := 0; rep < 4; rep++ {
		req := r.HTTP() // a request object of its own each time: what a first call does to the request is not reused
		rec.Reset()
		runtime.GC()
		runtime.GC()
		runtime.ReadMemStats(&ms)
		before := ms.Mallocs
		h.ServeHTTP(rec, req)
		runtime.ReadMemStats(&ms)
		if n := ms.Mallocs - before; rep > 0 && n < best { // (the first round sizes the recorder's map)
			best = n
		}
	}
	names := make([]string, 0, len(rec.H))
	for k, v := range rec.H {
		if len(v) > 0 {
			names = append(names, k)
		}
	}
	sort.Strings(names)
	return best, fmt.Sprintf("%d %s", rec.Status, strings.Join(names, ","))
}

// c18ColdSlack: allocations that do not depend on the request (a pool's New, map growth in the recorder) vary by a
// few between two measurements.
const c18ColdSlack = 4

const c18MaxAllocs = 8

func c18Request(kind, field string, size int) vlib.Req {
	if base, attr, ok := strings.Cut(kind, "@"); ok {
		r := c18Request(base, field, size)
		r.Attr = attr
		return r
	}
	h := map[string][]string{}
	method := "GET"
	switch kind {
	case "preflight", "preflight-get":
		method = "OPTIONS"
		h["Origin"] = []string{"https://a.example"}
		h["Access-Control-Request-Method"] = []string{"PUT"}
		if kind == "preflight-get" {
			h["Access-Control-Request-Method"] = []string{"GET"}
		}
		h["Access-Control-Request-Headers"] = []string{"x-a,x-b"}
	case "actual":
		h["Origin"] = []string{"https://a.example"}
	case "noncors":
	}
	pad := func(n int) string { return strings.Repeat("a", max(n, 0)) }
	field, unit, _ := strings.Cut(field, ":")
	switch field {
	case "origin-length":
		tail := "a.example"
		if unit == "subdomain" {
			tail = ".a.example" // a long label in front of an allowed wildcard base
		}
		base := "https://" + tail
		h["Origin"] = []string{"https://" + pad(size-len(base)) + tail}
		if size <= len(base) {
			h["Origin"] = []string{"https://a.example"[:max(1, min(size, 17))]}
		}
	case "acrm-length":
		switch unit {
		case "lower":
			h["Access-Control-Request-Method"] = []string{"put" + pad(size-3)}
		case "upper":
			h["Access-Control-Request-Method"] = []string{"PUT" + strings.Repeat("A", max(size-3, 0))}
		default:
			h["Access-Control-Request-Method"] = []string{"P" + pad(size-1)}
		}
	case "origin-labels":
		if unit == "" {
			unit = "a"
		}
		h["Origin"] = []string{"https://" + strings.Repeat(unit+".", size) + "a.example"}
	case "origin-elements":
		if unit == "" {
			unit = " "
		}
		els := make([]string, size)
		for i := range els {
			els[i] = "https://a.example"
		}
		h["Origin"] = []string{strings.Join(els, unit)}
	case "acrm-lines":
		if unit == "" {
			unit = "PUT"
		}
		lines := make([]string, size)
		for i := range lines {
			lines[i] = unit
		}
		h["Access-Control-Request-Method"] = lines
	case "origin-lines":
		lines := make([]string, size)
		for i := range lines {
			lines[i] = "https://a.example"
		}
		h["Origin"] = lines
	case "acrpn-lines":
		lines := make([]string, size)
		for i := range lines {
			lines[i] = "true"
		}
		h["Access-Control-Request-Private-Network"] = lines
	case "acrh-element-length":
		if unit == "upper" {
			h["Access-Control-Request-Headers"] = []string{"x-a,X-" + strings.Repeat("A", max(size, 0))}
		} else {
			h["Access-Control-Request-Headers"] = []string{"x-a,x-" + pad(size)}
		}
	case "acrh-elements":
		// size elements built from the unit (allowed name repeated, its upper-case spelling, an unknown name, a
		// padded name, two allowed names alternating): rejected or reflected, never at a per-element cost
		if unit == "" {
			unit = "x-a"
		}
		units := strings.Split(unit, "|")
		var b strings.Builder
		for i := 0; i < size; i++ {
			if i > 0 {
				b.WriteByte(',')
			}
			b.WriteString(units[i%len(units)])
		}
		h["Access-Control-Request-Headers"] = []string{b.String()}
	case "acrh-empty-elements":
		h["Access-Control-Request-Headers"] = []string{"x-a" + strings.Repeat(",", size)}
	case "acrh-lines":
		if unit == "" {
			unit = "x-a"
		}
		if unit == "empty" {
			unit = ""
		}
		lines := make([]string, size)
		for i := range lines {
			lines[i] = unit
		}
		h["Access-Control-Request-Headers"] = lines
	}
	if kind == "noncors" {
		delete(h, "Origin")
	}
	if unit == "lowerkey" {
		// the lines sit under a key that is not in canonical form (a map filled without http.Header's methods): to
		// net/http, and to the middleware, that is another header
		for _, k := range []string{"Access-Control-Request-Headers", "Origin"} {
			if v, ok := h[k]; ok && len(v) > 1 {
				h[strings.ToLower(k)] = v
				h[k] = v[:1]
			}
		}
	}
	return vlib.Req{Method: method, Hdr: h}
}

type c18Cell struct {
	allocs float64
	finger string
}

var c18PresetNames = []string{"Vary", "Access-Control-Allow-Origin", "Access-Control-Allow-Credentials", "Access-Control-Allow-Methods", "Access-Control-Allow-Headers",
	"Access-Control-Allow-Private-Network", "Access-Control-Max-Age", "Access-Control-Expose-Headers", "X-Outer"}

func c18Measure(h http.Handler, r vlib.Req, preset bool) c18Cell {
	req := r.HTTP()
	rec := vlib.NewRec()
	outer := make([][]string, len(c18PresetNames))
	for i := range outer {
		outer[i] = []string{"outer"}
	}
	install := func() {
		if preset {
			for i, n := range c18PresetNames {
				rec.H[n] = outer[i][:1:1]
			}
		}
	}
	install()
	h.ServeHTTP(rec, req)
	names := make([]string, 0, len(rec.H))
	for k, v := range rec.H {
		if len(v) > 0 {
			if preset {
				// which pre-set headers the middleware left alone, replaced or added to is part of the outcome
				who := "set-by-middleware"
				if v[0] == "outer" {
					who = "outer"
				}
				k = fmt.Sprintf("%s(%d%s, first %s)", k, min(len(v), 2), map[bool]string{false: "", true: "+"}[len(v) >= 2], who)
			}
			names = append(names, k)
		}
	}
	sort.Strings(names)
	f := fmt.Sprintf("%d %s", rec.Status, strings.Join(names, ","))
	a := testing.AllocsPerRun(10, func() {
		rec.Reset()
		install()
		h.ServeHTTP(rec, req)
	})
	return c18Cell{a, f}
}

func c18Build(l CfgLit, debug bool, route int) (http.Handler, error) {
	bm, err := buildViaH(route, l, debug)
	if err != nil {
		return nil, err
	}
	return bm.wrap(http.HandlerFunc(func(http.ResponseWriter, *http.Request) {})), nil
}

func c18Judge(k c18Case) *vlib.Failure {
	h, err := c18Build(k.Cfg, k.Debug, k.Route)
	if err != nil {
		return vlib.Failf("configuration of the C18 alphabet rejected: %v", err)
	}
	if k.Cold {
		big, fb := c18ColdAllocs(h, c18Request(k.Kind, k.Field, k.Size))
		small, fs := c18ColdAllocs(h, c18Request(k.Kind, k.Field, k.Base))
		if fb == fs && big > small+c18ColdSlack {
			return vlib.Failf("the first request after a garbage collection costs %d allocations at size %d and %d at size %d (%s %s, same response %s): scratch memory is grown at a cost that depends on the request", big, k.Size, small, k.Base, k.Kind, k.Field, fb)
		}
		return nil
	}
	cell := c18Measure(h, c18Request(k.Kind, k.Field, k.Size), k.Preset)
	if cell.allocs > c18MaxAllocs {
		return vlib.Failf("%v allocations per request (bound %d) for %s %s size %d (response %s)", cell.allocs, c18MaxAllocs, k.Kind, k.Field, k.Size, cell.finger)
	}
	if k.Base > 0 && k.Base != k.Size {
		base := c18Measure(h, c18Request(k.Kind, k.Field, k.Base), k.Preset)
		if base.finger == cell.finger && cell.allocs > base.allocs {
			return vlib.Failf("allocations grow with %s: %v at size %d, %v at size %d (same response %s)", k.Field, base.allocs, k.Base, cell.allocs, k.Size, cell.finger)
		}
	}
	return nil
}

func c18Test(k c18Case) string {
	return fmt.Sprintf(`package cors_test

// testing.AllocsPerRun around ServeHTTP (reusable recorder, no-op handler) for configuration %s, debug %t,
// %s request with %s = %d versus = %d: the count must not exceed %d nor grow with the size.
`, k.Cfg.GoLiteral(), k.Debug, k.Kind, k.Field, k.Size, k.Base, c18MaxAllocs)
}

func checkC18(c *vlib.Ctx) (string, string) {
	ck := &Checker[c18Case]{C: c, Judge: c18Judge, Test: c18Test}
	rule := "grid configuration kind x debug x request kind x growing field x size ladder (1 B .. 1 MiB; 1 .. 100 000 elements/lines); allocations per request measured with testing.AllocsPerRun must stay <= 8 and must not exceed those of the smallest size with the same response fingerprint; non-trivial = distinct cell whose response carries an Access-Control-Allow-Origin header"
	if ck.Replay() {
		return levelMC, rule
	}
	cfgs := []CfgLit{
		{Origins: []string{"*"}, Methods: []string{"PUT"}, RequestHeaders: []string{"X-A", "X-B"}, ResponseHeaders: []string{"X-R"}, MaxAge: 30},
		{Origins: []string{"https://a.example", "https://*.a.example"}, Methods: []string{"PUT"}, RequestHeaders: []string{"X-A", "X-B"}, ResponseHeaders: []string{"X-R"}, MaxAge: 30},
		{Origins: []string{"https://a.example", "https://*.a.example"}, Methods: []string{"*"}, RequestHeaders: []string{"*"}},
		{Origins: []string{"https://a.example", "https://*.a.example"}, Methods: []string{"*"}, RequestHeaders: []string{"*", "Authorization"}, ResponseHeaders: []string{"*"}},
		{Origins: []string{"https://a.example", "https://*.a.example"}, Credentialed: true, Methods: []string{"*"}, RequestHeaders: []string{"*"}, ResponseHeaders: []string{"X-R"}},
		{Origins: []string{"https://a.example", "https://*.a.example"}, Credentialed: true, PNA: true, Methods: []string{"PUT"}, RequestHeaders: []string{"X-A", "X-B"}},
		{Origins: []string{"https://a.example"}},
		// the same kinds with the switches that only validation used to read
		{Origins: []string{"https://a.example", "https://*.a.example"}, Credentialed: true, Methods: []string{"*"}, RequestHeaders: []string{"*"}, ResponseHeaders: []string{"X-R"}, TolInsecure: true, TolPSL: true},
		{Origins: []string{"https://a.example", "http://*.a.example"}, Credentialed: true, PNANoCORS: true, Methods: []string{"PUT"}, RequestHeaders: []string{"*", "Authorization"}, TolInsecure: true},
	}
	byteLadder := []int{1, 16, 64, 253, 254, 326, 327, 328, 4 << 10, 64 << 10, 1 << 20}
	countLadder := []int{1, 2, 16, 17, 18, 1000, 100000}
	fields := []struct {
		name   string
		ladder []int
	}{
		{"origin-length", byteLadder}, {"origin-length:subdomain", byteLadder},
		{"acrm-length", byteLadder}, {"acrm-length:lower", byteLadder}, {"acrm-length:upper", byteLadder},
		{"acrh-element-length", byteLadder}, {"acrh-element-length:upper", byteLadder},
		{"acrh-elements", countLadder}, {"acrh-elements:X-A", countLadder}, {"acrh-elements:x-zz", countLadder}, {"acrh-elements: x-a ", countLadder},
		{"acrh-elements:x-a;q=1", countLadder}, {"acrh-elements:(x)", countLadder}, {"acrh-elements:x\x00", countLadder}, {"acrh-elements:\"x-a\"", countLadder}, {"acrh-elements:é", countLadder},
		{"acrh-lines: x-a", countLadder}, {"acrh-lines:x-a\t", countLadder}, {"acrh-lines: x-a,x-b ", countLadder}, {"acrh-elements:x-a |\tx-b", countLadder},
		{"acrh-lines:x-a;q=1", countLadder}, {"acrh-lines:x@y, (z)", countLadder}, {"acrh-lines:\x00", countLadder},
		{"acrh-elements:x-a|x-b", countLadder}, {"acrh-elements:x-a|X-B|x-zz", countLadder}, {"acrh-elements:Authorization", countLadder},
		{"acrh-empty-elements", countLadder},
		{"origin-labels", countLadder}, {"origin-labels:\u00e9", countLadder}, {"origin-labels:xn--a", countLadder}, {"origin-labels:A", countLadder},
		{"origin-elements", countLadder}, {"origin-elements:,", countLadder}, {"origin-elements:, ", countLadder}, {"origin-elements:\t", countLadder},
		{"acrm-lines", countLadder}, {"acrm-lines:put", countLadder}, {"acrm-lines:Put", countLadder}, {"acrm-lines:query", countLadder}, {"origin-lines", countLadder}, {"acrpn-lines", countLadder},
		{"acrh-lines", countLadder}, {"acrh-lines:lowerkey", countLadder}, {"origin-lines:lowerkey", countLadder}, {"acrh-lines:authorization", countLadder}, {"acrh-lines:x-a,authorization", countLadder}, {"acrh-lines:X-A", countLadder}, {"acrh-lines:x-zz", countLadder}, {"acrh-lines:empty", countLadder}, {"acrh-lines:x-a,x-b", countLadder},
	}
	maxSeen := 0.0
	hist := map[string]int{}
	for li, l := range cfgs {
		for di, dbg := range []bool{false, true} {
			for _, route := range []int{0, 2 + (li*2+di)%12} { // a fresh middleware and one other construction route per cell
				h, err := c18Build(l, dbg, route)
				if err != nil {
					ck.Report(c18Case{Cfg: l, Route: route}, vlib.Failf("configuration of the C18 alphabet rejected: %v", err))
					return levelMC, rule
				}
				for _, kp := range []string{"preflight", "actual", "noncors", "preflight+preset", "actual+preset", "preflight-get", "preflight@h2", "preflight@h3", "preflight@tls", "actual@h2"} {
					kind, presetSfx, _ := strings.Cut(kp, "+")
					preset := presetSfx != ""
					for _, f := range fields {
						if !strings.HasPrefix(kind, "preflight") && !strings.HasPrefix(f.name, "origin-l") && f.name != "acrh-lines" {
							continue // ACRM/ACRH are only looked at on preflights; keep two fields as a control
						}
						baseOf := map[string]int{} // fingerprint -> smallest size
						baseAllocs := map[string]float64{}
						for _, size := range f.ladder {
							cell := c18Measure(h, c18Request(kind, f.name, size), preset)
							c.Evaluations.Add(1)
							c.States.Add(1)
							c.Transitions.Add(11)
							hist[fmt.Sprint(cell.allocs)]++
							if strings.Contains(cell.finger, "Access-Control-Allow-Origin") {
								c.Nontrivial.Add(1)
							}
							maxSeen = max(maxSeen, cell.allocs)
							b, seen := baseOf[cell.finger]
							if !seen {
								baseOf[cell.finger], baseAllocs[cell.finger] = size, cell.allocs
								b = 0
							}
							k := c18Case{l, dbg, kind, f.name, size, b, route, preset, false}
							if cell.allocs > c18MaxAllocs || seen && cell.allocs > baseAllocs[cell.finger] {
								if jf := vlib.Guard(func() *vlib.Failure { return c18Judge(k) }); jf != nil {
									ck.Report(k, jf)
								} else {
									vlib.HarnessError("grid and judge disagree on %+v (%v allocs, base %v)", k, cell.allocs, baseAllocs[cell.finger])
								}
							}
							if size == 327 {
								c.Sample(map[string]any{"case": k, "allocs": cell.allocs, "response": cell.finger})
							}
						}
					}
					if c.CheckDeadline("C18 grid") {
						return levelMC, rule
					}
				}
			}
		}
	}
	// cold measurements: the largest size of every ladder against the smallest, each as the first request after two
	// garbage collections (a pooled buffer that is grown step by step costs nothing once it is big enough)
	for _, l := range cfgs[:6] {
		for _, dbg := range []bool{false, true} {
			for _, kind := range []string{"preflight", "actual"} {
				for _, f := range fields {
					if kind != "preflight" && !strings.HasPrefix(f.name, "origin-l") {
						continue
					}
					top := f.ladder[len(f.ladder)-1]
					if len(f.ladder) == len(countLadder) {
						top = 1000 // (a hundred thousand lines are answered the same way as a thousand)
					}
					c.States.Add(1)
					c.Transitions.Add(8)
					ck.Try(c18Case{l, dbg, kind, f.name, top, f.ladder[0], 0, false, true})
				}
			}
			if c.CheckDeadline("C18 cold measurements") {
				return levelMC, rule
			}
		}
	}
	c.Set("max_allocs_seen", maxSeen)
	c.Set("allocs_histogram", hist)
	c.Set("byte_ladder", byteLadder)
	c.Set("count_ladder", countLadder)
	c.Assume("the claim covers the ladder, not every size in between")
	return levelMC, rule
}

func init() { registry["C18"] = checkC18 }
