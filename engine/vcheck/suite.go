package main

import (
	"fmt"
	"net/http"
	"sort"
	"strings"
	"sync"
	"sync/atomic"
	"time"

	"github.com/jub0bs/cors"
	"github.com/jub0bs/cors/internal/zzverif/ref"
	"github.com/jub0bs/cors/internal/zzverif/vlib"
)

// suiteFor derives a request suite from configurations: for every origin pattern an allowed instance and
// near misses, for every listed method / request-header name the spellings a browser could send plus
// unlisted ones, ACRH lines built from the listed names (sorted, unsorted, split, with an intruder), ACRPN,
// and a fixed set of malformed / non-CORS probes. The suite is deterministic (sorted, deduplicated).
func suiteFor(lits ...CfgLit) []vlib.Req {
	oset := map[string]bool{"https://unlisted.example": true, "null": true, "https://a.b/": true, "": true, "https://[a.b]": true}
	mset := map[string]bool{"GET": true, "PUT": true, "put": true, "DELETE": true, "ZAP": true}
	hset := map[string]bool{"": true, "x-unlisted": true, "authorization": true}
	primary := map[string]bool{"https://unlisted.example": true} // origins that get the full method / header lists
	for _, l := range lits {
		for _, p := range l.Origins {
			if p == "*" {
				oset["https://anything.example"] = true
				primary["https://anything.example"] = true
				continue
			}
			scheme, host, port, ok := ref.SplitOrigin(p)
			if !ok {
				continue
			}
			base := strings.TrimPrefix(host, "*.")
			ports := []string{""}
			if port == "*" {
				ports = []string{"", ":8443"}
			} else if port != "" {
				ports = []string{":" + port, ""}
			} else {
				ports = []string{"", ":8443"}
			}
			hosts := []string{base, "x" + base}
			if !strings.HasPrefix(base, "[") {
				hosts = append(hosts, "x."+base, "y.x."+base)
			}
			other := "http"
			if scheme == "http" {
				other = "https"
			}
			for _, h := range hosts {
				for _, pp := range ports {
					oset[scheme+"://"+h+pp] = true
				}
			}
			oset[other+"://"+base+ports[0]] = true
			if strings.HasPrefix(host, "*.") {
				primary[scheme+"://x."+base+ports[0]] = true // an instance the pattern allows
			} else {
				primary[scheme+"://"+base+ports[0]] = true
			}
		}
		for _, m := range l.Methods {
			if m != "*" {
				mset[m] = true
				mset[strings.ToUpper(m)] = true
				mset[strings.ToLower(m)] = true
			}
		}
		var names []string
		for _, h := range l.RequestHeaders {
			if h != "*" {
				names = append(names, strings.ToLower(h))
			}
		}
		names = ref.SortedUnique(names)
		for _, n := range names {
			hset[n] = true
			hset[strings.ToUpper(n)] = true
		}
		if len(names) > 0 {
			hset[strings.Join(names, ",")] = true
			hset[strings.Join(names, " , ")] = true
			hset[strings.Join(append(append([]string{}, names...), "x-unlisted"), ",")] = true
			hset[names[len(names)-1]+","+names[0]] = true
		}
	}
	keys := func(m map[string]bool) []string {
		out := make([]string, 0, len(m))
		for k := range m {
			out = append(out, k)
		}
		sort.Strings(out)
		return out
	}
	origins, methods, hdrs := keys(oset), keys(mset), keys(hset)
	var suite []vlib.Req
	// non-CORS
	for _, m := range []string{"GET", "OPTIONS", "POST"} {
		suite = append(suite, vlib.Req{Method: m})
		suite = append(suite, vlib.Req{Method: m, Hdr: map[string][]string{"Access-Control-Request-Method": {"PUT"}}})
	}
	for i, o := range origins {
		// actual requests and a plain preflight for every origin
		suite = append(suite, vlib.Req{Method: "GET", Hdr: map[string][]string{"Origin": {o}}})
		suite = append(suite, vlib.Req{Method: "OPTIONS", Hdr: map[string][]string{"Origin": {o}}})
		suite = append(suite, vlib.Req{Method: "OPTIONS", Hdr: map[string][]string{"Origin": {o}, "Access-Control-Request-Method": {"GET"}}})
		suite = append(suite, vlib.Req{Method: "OPTIONS", Hdr: map[string][]string{"Origin": {o}, "Access-Control-Request-Method": {"GET"}, "Access-Control-Request-Private-Network": {"true"}}})
		suite = append(suite, vlib.Req{Method: "OPTIONS", Hdr: map[string][]string{"Origin": {o}, "Access-Control-Request-Method": {methods[len(methods)-1]}, "Access-Control-Request-Headers": {hdrs[len(hdrs)-1], hdrs[0]}, "Access-Control-Request-Private-Network": {"true"}}})
		// the method and header steps do not depend on which origin passed the origin step: one allowed
		// instance per pattern, one unlisted origin and every seventh other origin get the full lists
		if primary[o] || i%7 == 0 {
			for _, m := range methods {
				suite = append(suite, vlib.Req{Method: "OPTIONS", Hdr: map[string][]string{"Origin": {o}, "Access-Control-Request-Method": {m}}})
			}
		}
		if primary[o] || i%7 == 0 {
			for _, h := range hdrs {
				suite = append(suite, vlib.Req{Method: "OPTIONS", Hdr: map[string][]string{"Origin": {o}, "Access-Control-Request-Method": {"GET"}, "Access-Control-Request-Headers": {h}}})
			}
		}
	}
	return suite
}

// observe serves the whole suite and returns one signature per request (state of m is not changed).
// Requests go alternately through two handlers that were obtained from Wrap when the middleware was first observed
// (possibly while it was still passthrough, several reconfigurations ago) and through a freshly wrapped one: what a
// handler answers must not depend on when it was wrapped, nor on what its siblings have served.
func observe(m *cors.Middleware, suite []vlib.Req) []string {
	lh := longLived(m)
	inner := &vlib.Noop{}
	fresh := m.Wrap(inner)
	out := make([]string, len(suite))
	for i, r := range suite {
		switch i % 3 {
		case 0:
			out[i] = vlib.Serve(fresh, &inner.Calls, r, nil).Sig()
		default:
			k := i%3 - 1
			lh.fwd[k].target = inner
			out[i] = vlib.Serve(lh.h[k], &inner.Calls, r, nil).Sig()
		}
	}
	return out
}

type longLivedHandlers struct {
	m   *cors.Middleware
	h   [2]http.Handler
	fwd [2]*forward
}

var (
	longLivedMu   sync.Mutex
	longLivedBy   = map[*cors.Middleware]*longLivedHandlers{}
	longLivedRing [4096]*longLivedHandlers // the most recently observed middlewares (older ones are simply re-wrapped)
	longLivedNext int
)

func longLived(m *cors.Middleware) *longLivedHandlers {
	longLivedMu.Lock()
	defer longLivedMu.Unlock()
	if e := longLivedBy[m]; e != nil {
		return e
	}
	e := &longLivedHandlers{m: m}
	for k := range e.h {
		e.fwd[k] = &forward{}
		e.h[k] = m.Wrap(e.fwd[k])
	}
	longLivedRemember(e)
	return e
}

func longLivedRemember(e *longLivedHandlers) {
	slot := longLivedNext % len(longLivedRing)
	if old := longLivedRing[slot]; old != nil && longLivedBy[old.m] == old {
		delete(longLivedBy, old.m)
	}
	longLivedRing[slot], longLivedBy[e.m] = e, e
	longLivedNext++
}

// rewrapLongLived replaces long-lived handler k of m by one obtained from Wrap now (whatever state m is in now);
// observe will use it from here on.
func rewrapLongLived(m *cors.Middleware, k int) {
	e := longLived(m)
	longLivedMu.Lock()
	defer longLivedMu.Unlock()
	e.fwd[k] = &forward{}
	e.h[k] = m.Wrap(e.fwd[k])
}

// adoptLongLived makes a handler that was obtained from m.Wrap earlier (an "early" handler of the construction
// routes) the first long-lived handler of m: every later observe sends a third of its requests through it.
func adoptLongLived(m *cors.Middleware, h http.Handler, fwd *forward) {
	longLivedMu.Lock()
	defer longLivedMu.Unlock()
	e := &longLivedHandlers{m: m}
	e.h[0], e.fwd[0] = h, fwd
	e.fwd[1] = &forward{}
	e.h[1] = m.Wrap(e.fwd[1])
	longLivedRemember(e)
}

// observeBoth serves the suite with debug off and then on (it leaves debug on).
func observeBoth(m *cors.Middleware, suite []vlib.Req) []string {
	m.SetDebug(false)
	a := observe(m, suite)
	m.SetDebug(true)
	return append(a, observe(m, suite)...)
}

// observeOnOff is for a middleware whose debug mode is on and has just been through a call that must have kept it
// on: the debug-on observations are taken first, before any SetDebug call could repair a stale piece of state;
// then debug is switched off, the suite observed, and debug switched on again. Same layout as observeBoth.
func observeOnOff(m *cors.Middleware, suite []vlib.Req) []string {
	on := observe(m, suite)
	m.SetDebug(false)
	off := observe(m, suite)
	m.SetDebug(true)
	return append(off, on...)
}

// firstDiff returns the index of the first differing element (-1 if equal).
func firstDiff(a, b []string) int {
	if len(a) != len(b) {
		return 0
	}
	for i := range a {
		if a[i] != b[i] {
			return i
		}
	}
	return -1
}

// Values that lie outside the small tidy examples: long lists, digits, hyphens, Punycode, unusual schemes, five-digit
// ports, token characters that are rare in header and method names, interior integers.
var (
	richOrigins = []string{"https://api-v2.example.co.uk", "https://*.example.co.uk", "https://xn--bcher-kva.example:49152", "chrome-extension://abcdefghijklmnopabcdefghijklmnop", "app+v1.0://host-1.internal:10000", "https://*.host-1.internal:*", "https://example.co.uk:10443"}
	richMethods = []string{"PUT", "DELETE", "M-SEARCH", "PATCH", "REPORT", "a*b!c"}
	richReqHdrs = []string{"X-Requested-With", "Content-Type", "X-Api_Key.v2", "x-trace~id", "X-B3-TraceId", "If-None-Match", "x!#$%&'*+^`|~"}
	richResHdrs = []string{"X-Request-Id", "ETag", "X-RateLimit-Remaining", "x_odd.name~1", "Link"}
)

var noopHandler = http.HandlerFunc(func(http.ResponseWriter, *http.Request) {})

// Construction routes. The documentation promises that all of them yield the same middleware (C06, C08, C09);
// the HTTP-level checks therefore do not only look at freshly built middlewares but also at ones that carry
// state left behind by earlier calls.
const nRoutes = 14

var routeNames = [nRoutes]string{
	"NewMiddleware(cfg)",
	"new(Middleware).Reconfigure(&cfg)",
	"NewMiddleware(other); requests; Reconfigure(&cfg)",
	"NewMiddleware(cfg); requests; Reconfigure(&invalid) fails",
	"NewMiddleware(cfg); SetDebug(true); Reconfigure(nil); request; Reconfigure(&cfg)",
	"NewMiddleware(cfg); requests; Reconfigure(Config())",
	"NewMiddleware(other); Reconfigure(&cfg) performed from inside ResponseWriter.Header() of an in-flight request",
	"NewMiddleware(other); h := Wrap(handler); requests through h; Reconfigure(&cfg); later requests still go through h",
	"new(Middleware); h := Wrap(handler) while passthrough; requests through h; Reconfigure(&cfg); later requests still go through h",
	"NewMiddleware(cfg); debug mode toggled to the opposite value; requests (and Config()) in that mode; debug mode toggled back",
	"NewMiddleware(cfg with max-age changed); requests; Reconfigure(&cfg); Reconfigure(&cfg) once more with the same pointer",
	"NewMiddleware(cfg with one more entry in every list); requests; Reconfigure(&cfg)",
	"NewMiddleware(c) with placeholder lists of the same lengths and the same scalars; requests; c's lists overwritten in place with cfg's values; Reconfigure(&c)",
	"NewMiddleware(cfg with methods and header names in the other letter case); requests; Reconfigure(&cfg)",
}

// forward lets a handler obtained from Wrap early serve a wrapped handler chosen later (same w and r are passed on).
type forward struct{ target http.Handler }

func (f *forward) ServeHTTP(w http.ResponseWriter, r *http.Request) {
	if f.target != nil {
		f.target.ServeHTTP(w, r)
	}
}

type earlyWrap struct {
	h   http.Handler
	fwd *forward
}

// A built middleware together with the handler obtained from Wrap before the last reconfiguration (route 7 only).
type built struct {
	m     *cors.Middleware
	early *earlyWrap
}

// wrap returns m.Wrap(inner) or, for a middleware built through route 7, the handler that was obtained from Wrap
// before the reconfiguration, now forwarding to inner.
func (b built) wrap(inner http.Handler) http.Handler {
	if b.early != nil {
		b.early.fwd.target = inner
		return b.early.h
	}
	return b.m.Wrap(inner)
}

// buildViaH is buildVia that also hands back the early handler of route 7.
func buildViaH(route int, lit CfgLit, debug bool, extra ...vlib.Req) (built, error) {
	var early *earlyWrap
	m, err := buildVia0(route, lit, debug, &early, extra...)
	if err == nil && m != nil && early != nil {
		adoptLongLived(m, early.h, early.fwd)
	}
	return built{m, early}, err
}

func buildVia(route int, lit CfgLit, debug bool, extra ...vlib.Req) (*cors.Middleware, error) {
	var early *earlyWrap
	m, err := buildVia0(route, lit, debug, &early, extra...)
	if err == nil && m != nil && early != nil {
		adoptLongLived(m, early.h, early.fwd)
	}
	return m, err
}

var routeOther = CfgLit{Origins: []string{"https://*.example:*", "http://*.example:*", "https://*.b:*", "https://*.a:*", "https://a.b", "https://a.example"}, Credentialed: true, TolInsecure: true, TolPSL: true,
	Methods: []string{"*"}, RequestHeaders: []string{"*"}, ResponseHeaders: []string{"X-Other"}, MaxAge: 77, PNA: true, Status: 299}

var routeInvalid = CfgLit{Origins: []string{"https://c.example", "https://c.example/path"}, Methods: []string{"QUERY"}, MaxAge: -2}

// reentrantDeadlock is set once a re-entrant control call has failed to return.
var reentrantDeadlock atomic.Bool

// reentrantRW performs a call on the middleware from inside Header() (once).
type reentrantRW struct {
	vlib.Rec
	do func()
}

func (w *reentrantRW) Header() http.Header {
	if w.do != nil {
		f := w.do
		w.do = nil
		f()
	}
	return w.H
}

// warmUp serves a few requests (actual and preflight, from origins the other configuration allows).
func warmUp(m *cors.Middleware, extra ...vlib.Req) {
	h := m.Wrap(noopHandler)
	reqs := append([]vlib.Req{
		{Method: "GET", Hdr: map[string][]string{"Origin": {"https://a.example"}}},
		{Method: "OPTIONS", Hdr: map[string][]string{"Origin": {"https://x.a.example:8443"}, "Access-Control-Request-Method": {"PUT"}, "Access-Control-Request-Headers": {"x-a,x-b"}, "Access-Control-Request-Private-Network": {"true"}}},
		{Method: "GET", Hdr: map[string][]string{"Origin": {"https://evil.example"}}},
		{Method: "OPTIONS"},
	}, extra...)
	for _, r := range reqs {
		h.ServeHTTP(vlib.NewRec(), r.HTTP())
	}
	_ = m.Config() // whatever Config() may cache must not matter later
}

// buildVia0 builds a middleware for lit through the given route and then sets the debug mode.
func buildVia0(route int, lit CfgLit, debug bool, early **earlyWrap, extra ...vlib.Req) (*cors.Middleware, error) {
	cfg := lit.Config()
	if route%2 == 1 {
		cfg = lit.ConfigAlt() // odd routes: lists share one backing array, unused lists are empty and non-nil
	}
	var m *cors.Middleware
	var err error
	switch route {
	case 0:
		m, err = cors.NewMiddleware(cfg)
	case 1:
		m = new(cors.Middleware)
		err = m.Reconfigure(&cfg)
	case 2, 6:
		m, err = cors.NewMiddleware(routeOther.Config())
		if err != nil {
			return nil, fmt.Errorf("auxiliary configuration rejected: %w", err)
		}
		m.SetDebug(!debug)
		warmUp(m, extra...)
		m.SetDebug(debug) // a successful Reconfigure keeps the debug mode: it is not set again afterwards
		if route == 2 {
			err = m.Reconfigure(&cfg)
		} else {
			// the reconfiguration lands while a request from an origin allowed by the old configuration is in flight
			reqs := append([]vlib.Req{{Method: "GET", Hdr: map[string][]string{"Origin": {"https://a.example"}}}}, extra...)
			h := m.Wrap(noopHandler)
			for i, r := range reqs {
				w := &reentrantRW{Rec: *vlib.NewRec()}
				if i == len(reqs)-1 {
					w.do = func() {
						// with a watchdog: a middleware that held its lock across calls into the ResponseWriter
						// would block here forever
						if reentrantDeadlock.Load() {
							// already established in this process: do not wait again (every waiter leaks a goroutine)
							err = fmt.Errorf("Reconfigure called from inside ResponseWriter.Header() does not return (deadlock established earlier in this run)")
							return
						}
						done := make(chan error, 1)
						go func() { done <- m.Reconfigure(&cfg) }()
						select {
						case err = <-done:
						case <-time.After(20 * time.Second):
							reentrantDeadlock.Store(true)
							err = fmt.Errorf("Reconfigure called from inside ResponseWriter.Header() did not return within 20 s (deadlock)")
						}
					}
				}
				h.ServeHTTP(w, r.HTTP())
			}
		}
	case 7:
		m, err = cors.NewMiddleware(routeOther.Config())
		if err != nil {
			return nil, fmt.Errorf("auxiliary configuration rejected: %w", err)
		}
		e := &earlyWrap{fwd: &forward{}}
		e.h = m.Wrap(e.fwd)
		*early = e
		for _, r := range append([]vlib.Req{{Method: "GET", Hdr: map[string][]string{"Origin": {"https://a.example"}}}, {Method: "OPTIONS", Hdr: map[string][]string{"Origin": {"https://a.example"}, "Access-Control-Request-Method": {"PUT"}}}}, extra...) {
			e.h.ServeHTTP(vlib.NewRec(), r.HTTP())
		}
		m.SetDebug(debug)
		err = m.Reconfigure(&cfg)
	case 9:
		m, err = cors.NewMiddleware(cfg)
		if err == nil {
			// two handlers are obtained at the start; both serve requests in the opposite debug mode; after the mode
			// is set back the sibling serves one request first; the caller gets the other one
			e := &earlyWrap{fwd: &forward{target: noopHandler}}
			e.h = m.Wrap(e.fwd)
			sibling := m.Wrap(noopHandler)
			*early = e
			m.SetDebug(!debug)
			warmUp(m, extra...)
			for _, r := range append([]vlib.Req{{Method: "OPTIONS", Hdr: map[string][]string{"Origin": {"https://a.example"}, "Access-Control-Request-Method": {"DELETE"}}}}, extra...) {
				e.h.ServeHTTP(vlib.NewRec(), r.HTTP())
				sibling.ServeHTTP(vlib.NewRec(), r.HTTP())
			}
			m.SetDebug(debug)
			sibling.ServeHTTP(vlib.NewRec(), vlib.Req{Method: "GET", Hdr: map[string][]string{"Origin": {"https://a.example"}}}.HTTP())
		}
	case 8:
		m = new(cors.Middleware)
		e := &earlyWrap{fwd: &forward{}}
		e.h = m.Wrap(e.fwd)
		*early = e
		for _, r := range append([]vlib.Req{{Method: "GET", Hdr: map[string][]string{"Origin": {"https://a.example"}}}, {Method: "OPTIONS", Hdr: map[string][]string{"Origin": {"https://a.example"}, "Access-Control-Request-Method": {"PUT"}}}}, extra...) {
			e.h.ServeHTTP(vlib.NewRec(), r.HTTP())
		}
		err = m.Reconfigure(&cfg)
	case 3:
		m, err = cors.NewMiddleware(cfg)
		if err == nil {
			m.SetDebug(debug) // a failed Reconfigure changes nothing
			warmUp(m, extra...)
			bad := routeInvalid.Config()
			if e := m.Reconfigure(&bad); e == nil {
				return nil, fmt.Errorf("invalid auxiliary configuration accepted")
			}
		}
	case 4:
		m, err = cors.NewMiddleware(cfg)
		if err == nil {
			m.SetDebug(true)
			if e := m.Reconfigure(nil); e != nil {
				return nil, e
			}
			warmUp(m, extra...)
			err = m.Reconfigure(&cfg)
		}
	case 5:
		m, err = cors.NewMiddleware(cfg)
		if err == nil {
			m.SetDebug(debug)
			warmUp(m, extra...)
			err = m.Reconfigure(m.Config())
		}
	case 12:
		// the caller keeps one Config value: first it holds placeholders, then it is edited in place and resubmitted
		c := cfg
		fill := func(n int, format string) []string {
			out := make([]string, n)
			for i := range out {
				out[i] = fmt.Sprintf(format, i)
			}
			return out
		}
		c.Origins = fill(len(cfg.Origins), "https://placeholder%d.example")
		c.Methods = fill(len(cfg.Methods), "PLACEHOLDER%d")
		c.RequestHeaders = fill(len(cfg.RequestHeaders), "X-Placeholder-%d")
		c.ResponseHeaders = fill(len(cfg.ResponseHeaders), "X-Placeholder-R-%d")
		first := c // the value that is handed over (NewMiddleware takes it by value: the slices are shared)
		var e0 error
		if m, e0 = cors.NewMiddleware(first); e0 != nil {
			m = new(cors.Middleware)
		}
		m.SetDebug(debug)
		warmUp(m, append([]vlib.Req{{Method: "GET", Hdr: map[string][]string{"Origin": {"https://placeholder0.example"}}}}, extra...)...)
		copy(c.Origins, cfg.Origins)
		copy(c.Methods, cfg.Methods)
		copy(c.RequestHeaders, cfg.RequestHeaders)
		copy(c.ResponseHeaders, cfg.ResponseHeaders)
		err = m.Reconfigure(&c)
		if e0 != nil && debug {
			m.SetDebug(true)
		}
		cfg = c
	case 13:
		near := lit
		recase := func(l []string) []string {
			out := make([]string, len(l))
			for i, s := range l {
				if out[i] = strings.ToUpper(s); out[i] == s {
					out[i] = strings.ToLower(s)
				}
			}
			return out
		}
		near.Methods, near.RequestHeaders, near.ResponseHeaders = recase(lit.Methods), recase(lit.RequestHeaders), recase(lit.ResponseHeaders)
		var e0 error
		if m, e0 = cors.NewMiddleware(near.Config()); e0 != nil {
			m = new(cors.Middleware)
		}
		m.SetDebug(debug)
		warmUp(m, extra...)
		err = m.Reconfigure(&cfg)
		if e0 != nil && debug {
			m.SetDebug(true)
		}
	case 10, 11:
		// the middleware first holds a near neighbour of the configuration: a short-cut in Reconfigure that compares the
		// request with the current state, or reuses parts of it, must not mistake one for the other
		near := lit
		if route == 10 {
			near.MaxAge = 600
			if lit.MaxAge == 600 {
				near.MaxAge = 0
			}
		} else {
			near.Origins = append(append([]string(nil), lit.Origins...), "https://zz-extra.example")
			if len(lit.Methods) > 0 {
				near.Methods = append(append([]string(nil), lit.Methods...), "ZZEXTRA")
			}
			if len(lit.RequestHeaders) > 0 {
				near.RequestHeaders = append(append([]string(nil), lit.RequestHeaders...), "X-Zz-Extra")
			}
			if len(lit.ResponseHeaders) > 0 {
				near.ResponseHeaders = append(append([]string(nil), lit.ResponseHeaders...), "X-Zz-Extra-R")
			}
		}
		var e0 error
		if m, e0 = cors.NewMiddleware(near.Config()); e0 != nil {
			m = new(cors.Middleware) // this configuration has no such neighbour
		}
		m.SetDebug(debug)
		warmUp(m, append([]vlib.Req{{Method: "GET", Hdr: map[string][]string{"Origin": {"https://zz-extra.example"}}}}, extra...)...)
		err = m.Reconfigure(&cfg)
		if err == nil && route == 10 {
			err = m.Reconfigure(&cfg)
		}
		if e0 != nil && debug {
			m.SetDebug(true) // the zero value ignored the earlier SetDebug
		}
	default:
		return nil, fmt.Errorf("unknown route %d", route)
	}
	if err != nil {
		return nil, err
	}
	// what crossed the API boundary is the caller's: the Config that was passed in and every Config() result are
	// overwritten in place with an attacker's values (the middleware must not be looking at them any more)
	scribbleConfig(&cfg)
	scribbleConfig(m.Config())
	if debug && (route == 0 || route == 1 || route == 4 || route == 8) {
		// On these routes debug mode is off by documentation (after creation, on and after passthrough): it is only
		// ever switched ON here, never "repaired" to off. On the other routes the mode was set before the last
		// Reconfigure, which must keep it.
		m.SetDebug(true)
	}
	return m, nil
}

// minimalFlags clears the DangerouslyTolerate* switches that the configuration does not need (as decided by
// NewMiddleware itself): most users never set them, and code paths guarded by them differ.
func minimalFlags(l CfgLit) CfgLit {
	for _, f := range []func(*CfgLit){func(x *CfgLit) { x.TolPSL = false }, func(x *CfgLit) { x.TolInsecure = false }} {
		t := l
		f(&t)
		if _, err := cors.NewMiddleware(t.Config()); err == nil {
			l = t
		}
	}
	return l
}

// requestHeaderDictionary: request headers that browsers, proxies and frameworks really send, with values that mean
// something to somebody. A CORS middleware reads Origin and the three Access-Control-Request-* headers and nothing
// else: adding any of these to a request must not change what the middleware does with it.
var requestHeaderDictionary = func() [][2]string {
	var d [][2]string
	add := func(name string, values ...string) {
		for _, v := range values {
			d = append(d, [2]string{name, v})
		}
	}
	add("Sec-Fetch-Site", "same-origin", "same-site", "cross-site", "none")
	add("Sec-Fetch-Mode", "cors", "no-cors", "navigate", "same-origin", "websocket")
	add("Sec-Fetch-Dest", "empty", "document", "iframe", "script")
	add("Sec-Fetch-User", "?1")
	add("Sec-Fetch-Storage-Access", "active", "inactive", "none")
	add("Sec-Purpose", "prefetch", "prefetch;prerender")
	add("Sec-GPC", "1")
	add("Sec-CH-UA-Mobile", "?0")
	add("Sec-WebSocket-Version", "13")
	add("Access-Control-Request-Local-Network", "true", "false")
	add("Access-Control-Request-Credentials", "true")
	add("Access-Control-Request-External", "true")
	add("Access-Control-Request-Origin", "https://a.example")
	add("Access-Control-Allow-Origin", "*", "https://a.example")
	add("Access-Control-Allow-Credentials", "true")
	add("Access-Control-Allow-Private-Network", "true")
	add("Private-Network-Access-Id", "01:23:45:67:89:0A")
	add("Private-Network-Access-Name", "device")
	add("Host", "a.example", "evil.example", "localhost")
	add("X-Forwarded-Host", "a.example", "evil.example")
	add("X-Forwarded-Proto", "https", "http")
	add("X-Forwarded-For", "127.0.0.1", "10.0.0.1")
	add("Forwarded", "for=127.0.0.1;proto=https;host=a.example")
	add("X-Real-IP", "127.0.0.1")
	add("X-Original-URL", "/admin")
	add("X-HTTP-Method-Override", "GET", "OPTIONS", "PUT")
	add("X-HTTP-Method", "OPTIONS")
	add("X-Method-Override", "DELETE")
	add("X-Requested-With", "XMLHttpRequest")
	add("Referer", "https://a.example/", "https://evil.example/")
	add("Cookie", "sid=1")
	add("Authorization", "Bearer x", "Basic dTpw")
	add("Proxy-Authorization", "Basic dTpw")
	add("Content-Type", "application/json", "text/plain", "multipart/form-data")
	add("Content-Length", "0", "5")
	add("Accept", "*/*", "application/json")
	add("Accept-Language", "en")
	add("Accept-Encoding", "gzip, br")
	add("User-Agent", "Mozilla/5.0", "curl/8.0")
	add("Connection", "keep-alive", "close", "Upgrade")
	add("Upgrade", "websocket", "h2c")
	add("Upgrade-Insecure-Requests", "1")
	add("Cache-Control", "no-cache", "max-age=0")
	add("Pragma", "no-cache")
	add("If-None-Match", "\"x\"")
	add("Range", "bytes=0-1")
	add("DNT", "1")
	add("TE", "trailers")
	add("Via", "1.1 proxy")
	add("Expect", "100-continue")
	add("Service-Worker", "script")
	add("Service-Worker-Navigation-Preload", "true")
	add("Purpose", "prefetch")
	add("X-Debug", "1", "true")
	add("X-Cors-Debug", "true")
	add("Vary", "Origin")
	add("Timing-Allow-Origin", "*")
	add("Origin-Agent-Cluster", "?1")
	add("Cross-Origin-Resource-Policy", "cross-origin")
	return d
}()

// withDictionaryHeader returns r with one more header (existing values of that name are kept in front).
func withDictionaryHeader(r vlib.Req, e [2]string) vlib.Req {
	h := make(map[string][]string, len(r.Hdr)+1)
	for k, v := range r.Hdr {
		h[k] = v
	}
	h[e[0]] = append(append([]string(nil), r.Hdr[e[0]]...), e[1])
	return vlib.Req{Method: r.Method, Hdr: h}
}

// trafficSequence is a long deterministic request history for one middleware: n distinct origins under the allowed
// wildcard base (allowedFmt, e.g. "https://t%d.a.b") and n near misses (deniedFmt), as actual requests and preflights,
// every origin coming back immediately, after a few requests, after a few dozen and after about a hundred others
// (fixed-size memos, rings and pools behave differently once they have wrapped).
func trafficSequence(n int, allowedFmt, deniedFmt string) []vlib.Req {
	var out []vlib.Req
	emit := func(format string, i int, preflight bool) {
		if i < 0 {
			return
		}
		o := fmt.Sprintf(format, i)
		if preflight {
			out = append(out, vlib.Req{Method: "OPTIONS", Hdr: map[string][]string{"Origin": {o}, "Access-Control-Request-Method": {"PUT"}, "Access-Control-Request-Headers": {"x-a"}}})
		} else {
			out = append(out, vlib.Req{Method: "GET", Hdr: map[string][]string{"Origin": {o}}})
		}
	}
	for i := 0; i < n; i++ {
		emit(allowedFmt, i, i%2 == 0)
		emit(deniedFmt, i, i%3 == 0)
		emit(deniedFmt, i, false) // immediately again
		emit(allowedFmt, i-2, false)
		emit(deniedFmt, i-5, i%2 == 1)
		emit(deniedFmt, i-37, false)
		emit(allowedFmt, i-41, true)
		emit(deniedFmt, i-101, false)
		emit(allowedFmt, i-130, false)
	}
	return out
}
