package main

import (
	"net/http"
	"sort"
	"strings"

	"github.com/jub0bs/cors"
	"github.com/jub0bs/cors/internal/zzverif/ref"
	"github.com/jub0bs/cors/internal/zzverif/vlib"
)

// suiteFor derives a request suite from configurations: for every origin pattern an allowed instance and
// near misses, for every listed method / request-header name the spellings a browser could send plus
// unlisted ones, ACRH lines built from the listed names (sorted, unsorted, split, with an intruder), ACRPN,
// and a fixed set of malformed / non-CORS probes. The suite is deterministic (sorted, deduplicated).
func suiteFor(lits ...CfgLit) []vlib.Req {
	oset := map[string]bool{"https://unlisted.example": true, "null": true, "https://a.b/": true, "": true, "https://[a.b]": true}
	mset := map[string]bool{"GET": true, "PUT": true, "put": true, "DELETE": true, "ZAP": true}
	hset := map[string]bool{"": true, "x-unlisted": true, "authorization": true}
	primary := map[string]bool{"https://unlisted.example": true} // origins that get the full method / header lists
	for _, l := range lits {
		for _, p := range l.Origins {
			if p == "*" {
				oset["https://anything.example"] = true
				primary["https://anything.example"] = true
				continue
			}
			scheme, host, port, ok := ref.SplitOrigin(p)
			if !ok {
				continue
			}
			base := strings.TrimPrefix(host, "*.")
			ports := []string{""}
			if port == "*" {
				ports = []string{"", ":8443"}
			} else if port != "" {
				ports = []string{":" + port, ""}
			} else {
				ports = []string{"", ":8443"}
			}
			hosts := []string{base, "x" + base}
			if !strings.HasPrefix(base, "[") {
				hosts = append(hosts, "x."+base, "y.x."+base)
			}
			other := "http"
			if scheme == "http" {
				other = "https"
			}
			for _, h := range hosts {
				for _, pp := range ports {
					oset[scheme+"://"+h+pp] = true
				}
			}
			oset[other+"://"+base+ports[0]] = true
			if strings.HasPrefix(host, "*.") {
				primary[scheme+"://x."+base+ports[0]] = true // an instance the pattern allows
			} else {
				primary[scheme+"://"+base+ports[0]] = true
			}
		}
		for _, m := range l.Methods {
			if m != "*" {
				mset[m] = true
				mset[strings.ToUpper(m)] = true
				mset[strings.ToLower(m)] = true
			}
		}
		var names []string
		for _, h := range l.RequestHeaders {
			if h != "*" {
				names = append(names, strings.ToLower(h))
			}
		}
		names = ref.SortedUnique(names)
		for _, n := range names {
			hset[n] = true
			hset[strings.ToUpper(n)] = true
		}
		if len(names) > 0 {
			hset[strings.Join(names, ",")] = true
			hset[strings.Join(names, " , ")] = true
			hset[strings.Join(append(append([]string{}, names...), "x-unlisted"), ",")] = true
			hset[names[len(names)-1]+","+names[0]] = true
		}
	}
	keys := func(m map[string]bool) []string {
		out := make([]string, 0, len(m))
		for k := range m {
			out = append(out, k)
		}
		sort.Strings(out)
		return out
	}
	origins, methods, hdrs := keys(oset), keys(mset), keys(hset)
	var suite []vlib.Req
	// non-CORS
	for _, m := range []string{"GET", "OPTIONS", "POST"} {
		suite = append(suite, vlib.Req{Method: m})
		suite = append(suite, vlib.Req{Method: m, Hdr: map[string][]string{"Access-Control-Request-Method": {"PUT"}}})
	}
	for i, o := range origins {
		// actual requests and a plain preflight for every origin
		suite = append(suite, vlib.Req{Method: "GET", Hdr: map[string][]string{"Origin": {o}}})
		suite = append(suite, vlib.Req{Method: "OPTIONS", Hdr: map[string][]string{"Origin": {o}}})
		suite = append(suite, vlib.Req{Method: "OPTIONS", Hdr: map[string][]string{"Origin": {o}, "Access-Control-Request-Method": {"GET"}}})
		suite = append(suite, vlib.Req{Method: "OPTIONS", Hdr: map[string][]string{"Origin": {o}, "Access-Control-Request-Method": {"GET"}, "Access-Control-Request-Private-Network": {"true"}}})
		suite = append(suite, vlib.Req{Method: "OPTIONS", Hdr: map[string][]string{"Origin": {o}, "Access-Control-Request-Method": {methods[len(methods)-1]}, "Access-Control-Request-Headers": {hdrs[len(hdrs)-1], hdrs[0]}, "Access-Control-Request-Private-Network": {"true"}}})
		// the method and header steps do not depend on which origin passed the origin step: one allowed
		// instance per pattern, one unlisted origin and every seventh other origin get the full lists
		if primary[o] || i%7 == 0 {
			for _, m := range methods {
				suite = append(suite, vlib.Req{Method: "OPTIONS", Hdr: map[string][]string{"Origin": {o}, "Access-Control-Request-Method": {m}}})
			}
		}
		if primary[o] || i%7 == 0 {
			for _, h := range hdrs {
				suite = append(suite, vlib.Req{Method: "OPTIONS", Hdr: map[string][]string{"Origin": {o}, "Access-Control-Request-Method": {"GET"}, "Access-Control-Request-Headers": {h}}})
			}
		}
	}
	return suite
}

// observe serves the whole suite and returns one signature per request (state of m is not changed).
func observe(m *cors.Middleware, suite []vlib.Req) []string {
	inner := &vlib.Noop{}
	h := m.Wrap(inner)
	out := make([]string, len(suite))
	for i, r := range suite {
		out[i] = vlib.Serve(h, &inner.Calls, r, nil).Sig()
	}
	return out
}

// observeBoth serves the suite with debug off and then on (it leaves debug on).
func observeBoth(m *cors.Middleware, suite []vlib.Req) []string {
	m.SetDebug(false)
	a := observe(m, suite)
	m.SetDebug(true)
	return append(a, observe(m, suite)...)
}

// firstDiff returns the index of the first differing element (-1 if equal).
func firstDiff(a, b []string) int {
	if len(a) != len(b) {
		return 0
	}
	for i := range a {
		if a[i] != b[i] {
			return i
		}
	}
	return -1
}

var noopHandler = http.HandlerFunc(func(http.ResponseWriter, *http.Request) {})
