package main

import (
	"fmt"
	"slices"
	"strings"
	"sync"
	"time"

	"github.com/jub0bs/cors"
	"github.com/jub0bs/cors/internal/zzverif/ref"
	"github.com/jub0bs/cors/internal/zzverif/vlib"
)

// C09 — debug mode follows the documented state machine over any call history (E-SEQ on the real Middleware).
// C08 — a rejected Reconfigure leaves the middleware exactly as it was (uses C09's closure as start states).

var (
	smA = CfgLit{Origins: []string{"https://a.example", "https://*.a.example", "https://xn--bcher-kva.example:49152", "app+v1.0://host-1.internal:10000", "https://*.example.co.uk:*"}, Methods: []string{"PUT", "PATCH", "M-SEARCH", "a*b!c"},
		RequestHeaders: []string{"X-A", "X-B", "X-Api_Key.v2", "x-trace~id", "Content-Type"}, ResponseHeaders: []string{"X-R", "ETag", "x_odd.name~1"}, MaxAge: 600, Status: 201, TolPSL: true}
	smB       = CfgLit{Origins: []string{"http://b.example:*", "https://*.github.io"}, Credentialed: true, PNA: true, TolInsecure: true, TolPSL: true, Methods: []string{"DELETE"}, RequestHeaders: []string{"X-C", "Authorization"}, ResponseHeaders: []string{"X-S", "X-T"}, MaxAge: -1, Status: 200}
	smC       = CfgLit{Origins: []string{"*"}, Methods: []string{"*"}, RequestHeaders: []string{"*"}, ResponseHeaders: []string{"*"}}
	smInvalid = CfgLit{Origins: []string{"https://c.example", "https://c.example/path"}, Methods: []string{"QUERY"}, MaxAge: 10}
	smD       = CfgLit{Origins: []string{"https://d.example", "https://a.example"}, Credentialed: true, Methods: []string{"PUT", "*"}, RequestHeaders: []string{"X-Trace-Id", "*", "x-a"}, ResponseHeaders: []string{"X-R"}, MaxAge: 600}
	smE       = CfgLit{Origins: []string{"https://a.example"}, RequestHeaders: []string{"Authorization", "*", "X-B"}, Methods: []string{"*"}, PNANoCORS: true}
	// configurations of the diagnostics part only (sparse ones: a preflight can fail at every step also in debug mode)
	smF    = CfgLit{Origins: []string{"https://a.example"}}
	smG    = CfgLit{Origins: []string{"https://a.example", "https://*.a.example"}, Credentialed: true, Methods: []string{"PUT"}, Status: 200}
	smH    = CfgLit{Origins: []string{"*"}, Methods: []string{"DELETE", "PATCH"}, MaxAge: 30, ResponseHeaders: []string{"X-R"}}
	smI    = CfgLit{Origins: []string{"https://a.example"}, RequestHeaders: []string{"X-A", "Accept", "Accept-Language", "Content-Language", "Content-Type", "Range"}, Status: 299, MaxAge: -1}
	smCfgs = map[string]CfgLit{"A": smA, "B": smB, "C": smC, "D": smD, "E": smE, "F": smF, "G": smG, "H": smH, "I": smI}
	smDiag = []string{"A", "B", "C", "D", "E", "F", "G", "H", "I"}
)

type smOp struct {
	Name string // SetDebug(true) | SetDebug(false) | Reconfigure(nil) | Reconfigure(A) | ... | Reconfigure(invalid) | Reconfigure(Config())
}

var smOps = []string{"SetDebug(true)", "SetDebug(false)", "Reconfigure(nil)", "Reconfigure(A)", "Reconfigure(B)", "Reconfigure(invalid)", "Reconfigure(Config())", "Reconfigure(C)"}

// smRef is the documented state machine.
type smRef struct {
	cfg   string // "" passthrough
	debug bool
}

func (r smRef) step(op string) (smRef, bool) { // next state, whether the call must return an error
	switch op {
	case "SetDebug(true)", "SetDebug(false)":
		if r.cfg != "" {
			r.debug = op == "SetDebug(true)"
		}
	case "Reconfigure(nil)":
		r = smRef{}
	case "Reconfigure(invalid)":
		return r, true
	case "Reconfigure(Config())":
	default:
		r.cfg = strings.TrimSuffix(strings.TrimPrefix(op, "Reconfigure("), ")")
	}
	return r, false
}

func smApply(m *cors.Middleware, op string) error {
	switch op {
	case "SetDebug(true)":
		m.SetDebug(true)
	case "SetDebug(false)":
		m.SetDebug(false)
	case "Reconfigure(nil)":
		return m.Reconfigure(nil)
	case "Reconfigure(invalid)":
		c := smInvalid.Config()
		return m.Reconfigure(&c)
	case "Reconfigure(Config())":
		return m.Reconfigure(m.Config())
	default:
		l, ok := smCfgs[strings.TrimSuffix(strings.TrimPrefix(op, "Reconfigure("), ")")]
		if !ok {
			panic("unknown op " + op)
		}
		c := l.Config()
		return m.Reconfigure(&c)
	}
	return nil
}

func smInit(init string) (*cors.Middleware, smRef, error) {
	if init == "zero" {
		return new(cors.Middleware), smRef{}, nil
	}
	m, err := cors.NewMiddleware(smA.Config())
	return m, smRef{cfg: "A"}, err
}

var smSuite, smSuiteRev, smSuiteFull []vlib.Req // the thinned suite (state-machine part) and the full one (diagnostics part)

// smFresh builds a middleware directly for a reference state.
func smFresh(r smRef) (*cors.Middleware, error) {
	if r.cfg == "" {
		return new(cors.Middleware), nil
	}
	m, err := cors.NewMiddleware(smCfgs[r.cfg].Config())
	if err != nil {
		return nil, err
	}
	m.SetDebug(r.debug)
	return m, nil
}

var (
	smFreshObs = map[smRef][]string{}
	smOnce     sync.Once
)

// smEnsure computes the probe suite and the observations of freshly built middlewares (lazily: a panic of
// the code under test must surface inside a check, not during package initialisation).
// A panic of the code under test while the reference observations are taken is remembered and reported, identically,
// by every judge that needs them (a sync.Once alone would swallow it after the first caller).
func smEnsure() *vlib.Failure {
	smOnce.Do(func() { smPrepareFailure = vlib.Guard(func() *vlib.Failure { smPrepare(); return nil }) })
	if smPrepareFailure != nil {
		return vlib.Failf("while serving the probe suite on a freshly built middleware: %s", smPrepareFailure.Detail)
	}
	return nil
}

var smPrepareFailure *vlib.Failure

func smPrepare() {
	smSuite = suiteFor(smA, smB, smC, smD, smE)
	smSuiteFull = suiteFor(smA, smB, smC, smD, smE, smF, smG, smH, smI)
	// more ACRH field lines than any configured list is long
	for _, o := range []string{"https://a.example", "http://b.example:81"} {
		for _, n := range []int{17, 18, 19, 20, 22, 23, 24, 40} {
			for _, unit := range []string{"x-zz", "", "x-a"} {
				lines := make([]string, n)
				for i := range lines {
					lines[i] = unit
				}
				smSuiteFull = append(smSuiteFull, vlib.Req{Method: "OPTIONS", Hdr: map[string][]string{"Origin": {o}, "Access-Control-Request-Method": {"GET"}, "Access-Control-Request-Headers": lines}})
			}
		}
	}
	// methods in a letter case other than the one that is allowed or safelisted (method names are case-sensitive; only
	// browsers normalise a handful of them before sending)
	for _, o := range []string{"https://a.example", "http://b.example:81", "https://d.example"} {
		for _, m := range []string{"get", "Get", "head", "post", "Post", "put", "Put", "delete", "Delete", "patch", "options", "m-search"} {
			for _, acrh := range [][]string{nil, {"x-a"}, {"authorization"}} {
				hdr := map[string][]string{"Origin": {o}, "Access-Control-Request-Method": {m}}
				if acrh != nil {
					hdr["Access-Control-Request-Headers"] = acrh
				}
				smSuiteFull = append(smSuiteFull, vlib.Req{Method: "OPTIONS", Hdr: hdr})
			}
		}
	}
	// header keys with zero values (no field line at all) and with one empty value, on preflights that otherwise pass
	for _, o := range []string{"https://a.example", "http://b.example:81", "https://d.example"} {
		for _, m := range []string{"GET", "PUT", "DELETE"} {
			for _, k := range []string{"Access-Control-Request-Headers", "Access-Control-Request-Private-Network"} {
				for _, v := range [][]string{{}, {""}} {
					smSuiteFull = append(smSuiteFull, vlib.Req{Method: "OPTIONS", Hdr: map[string][]string{"Origin": {o}, "Access-Control-Request-Method": {m}, k: v}})
				}
			}
		}
	}
	// the state-machine checks observe the whole suite after every step of every history: keep it to a few
	// hundred requests (deterministic stride; the first block with the non-CORS probes is kept whole)
	const maxSuite = 360
	if len(smSuite) > maxSuite {
		stride := (len(smSuite) + maxSuite - 1) / maxSuite
		var thin []vlib.Req
		for i, r := range smSuite {
			if i < 12 || i%stride == 0 {
				thin = append(thin, r)
			}
		}
		smSuite = thin
	}
	// the suite is observed forwards and then backwards after every step: it begins (hence the backward pass ends)
	// with preflights that pass the origin and method steps of A / B and ask, on one field line, for a header that
	// neither allows. What such a request leaves behind in debug mode is the first thing asked again after SetDebug(false).
	smSuite = append([]vlib.Req{
		{Method: "OPTIONS", Hdr: map[string][]string{"Origin": {"https://a.example"}, "Access-Control-Request-Method": {"PUT"}, "Access-Control-Request-Headers": {"x-not-listed"}}},
		{Method: "OPTIONS", Hdr: map[string][]string{"Origin": {"http://b.example:81"}, "Access-Control-Request-Method": {"DELETE"}, "Access-Control-Request-Headers": {"x-not-listed"}}},
	}, smSuite...)
	smSuiteRev = slices.Clone(smSuite)
	slices.Reverse(smSuiteRev)
	for _, cfg := range []string{"", "A", "B", "C", "D", "E"} {
		for _, d := range []bool{false, true} {
			if cfg == "" && d {
				continue
			}
			r := smRef{cfg, d}
			if m, err := smFresh(r); err == nil {
				smFreshObs[r] = observe(m, smSuite)
			}
		}
	}
}

type c09Case struct {
	Init string   `json:"init"` // "new(A)" | "zero"
	Ops  []string `json:"ops"`
	// second family: one request compared between debug off and debug on under configuration DiagCfg
	DiagCfg string    `json:"diag_config,omitempty"`
	DiagReq *vlib.Req `json:"diag_request,omitempty"`
}

// c09Check verifies the state reached against the reference state.
func c09Check(m *cors.Middleware, r smRef, after string) *vlib.Failure {
	if (m.Config() == nil) != (r.cfg == "") {
		return vlib.Failf("after %s: Config() nil-ness %t, reference state %+v", after, m.Config() == nil, r)
	}
	want, ok := smFreshObs[r]
	if !ok {
		return vlib.Failf("no fresh middleware for reference state %+v", r)
	}
	got := observe(m, smSuite)
	if i := firstDiff(want, got); i >= 0 {
		return vlib.Failf("after %s the middleware (reference state: config %q, debug %t) answers %s with %s, a middleware freshly built for that state answers %s", after, r.cfg, r.debug, smSuite[i], got[i], want[i])
	}
	back := observe(m, smSuiteRev)
	for i := range back {
		if j := len(want) - 1 - i; back[i] != want[j] {
			return vlib.Failf("after %s, the suite having been served once already in this state, the middleware (reference state: config %q, debug %t) answers %s with %s, a middleware freshly built for that state answers %s", after, r.cfg, r.debug, smSuiteRev[i], back[i], want[j])
		}
	}
	return nil
}

func c09Judge(k c09Case) *vlib.Failure {
	if f := smEnsure(); f != nil {
		return f
	}
	if k.DiagReq != nil {
		if nStr, ok := strings.CutPrefix(k.DiagCfg, "big:"); ok {
			var n int
			fmt.Sscan(nStr, &n)
			var names []string
			for i := 0; i < n; i++ {
				names = append(names, fmt.Sprintf("X-Header-%04d", i))
			}
			m1, err := cors.NewMiddleware(CfgLit{Origins: []string{"https://a.example"}, RequestHeaders: names, Methods: []string{"PUT"}, MaxAge: 60}.Config())
			if err != nil {
				return vlib.Failf("configuration with %d request-header names rejected: %v", n, err)
			}
			m1.SetDebug(true)
			res := vlib.Serve(m1.Wrap(noopHandler), nil, *k.DiagReq, nil)
			listed, _, _ := ref.ExtractList(res.Hdr, "Access-Control-Allow-Headers")
			for _, want := range k.DiagReq.Hdr["Access-Control-Request-Headers"] {
				found := false
				for _, l := range listed {
					if strings.EqualFold(l, want) {
						found = true
					}
				}
				if !found {
					return vlib.Failf("configuration with %d allowed request-header names, debug on: the answer to a preflight asking for %q lists %d names and not that one", n, want, len(listed))
				}
			}
			return nil
		}
		return c09Diag(k.DiagCfg, *k.DiagReq)
	}
	m, r, err := smInit(k.Init)
	if err != nil {
		return vlib.Failf("configuration A rejected: %v", err)
	}
	// "A Middleware must not be copied after first use": a copy taken before first use is a middleware of its own,
	// whose state machine does not move when the original's does
	twin, rTwin := new(cors.Middleware), r
	*twin = *m //nolint:govet // (copied before first use, as the documentation permits)
	if f := c09Check(m, r, "creation"); f != nil {
		return f
	}
	for i, op := range k.Ops {
		var mustErr bool
		r, mustErr = r.step(op)
		err := smApply(m, op)
		if (err != nil) != mustErr {
			return vlib.Failf("step %d %s returned err=%v (error expected: %t)", i+1, op, err, mustErr)
		}
		if f := c09Check(m, r, fmt.Sprintf("step %d of %v from %s", i+1, k.Ops[:i+1], k.Init)); f != nil {
			return f
		}
		if i == len(k.Ops)-1 || i == 0 {
			if f := c09Check(twin, rTwin, fmt.Sprintf("step %d of %v from %s was applied to another middleware, of which this one is a copy taken before first use; this one", i+1, k.Ops[:i+1], k.Init)); f != nil {
				return f
			}
		}
	}
	return nil
}

func c09Test(k c09Case) string {
	return fmt.Sprintf(`package cors_test

// Start from %s, apply %v (A, B, C, invalid as in engine/vcheck/c09.go) and, after every step, compare the
// responses to a probe suite with those of a middleware built directly for the state the documentation
// prescribes (SetDebug is a no-op on a passthrough middleware; Reconfigure(nil) switches debug off; a successful
// Reconfigure keeps the debug mode; a failed one changes nothing).
`, k.Init, k.Ops)
}

// c09Diag: debug on/off responses to one request may differ only if the request is a preflight; if it succeeds
// with debug off, only in the rendering of Access-Control-Allow-Headers (debug mode lists the full configured
// set); if it fails with debug off, only in the status (the configured ok status) and in Access-Control-*
// headers other than Expose-Headers. Vary, body and handler invocation never differ.
func c09Diag(name string, r vlib.Req) *vlib.Failure {
	if f := c09DiagP(name, r, nil); f != nil {
		return f
	}
	// the same behind an outer layer that already set Vary (two field lines) and an unrelated header
	if f := c09DiagP(name, r, map[string][]string{"Vary": {"Accept-Encoding", "Cookie"}, "X-Outer": {"1"}}); f != nil {
		f.Detail = "with Vary and X-Outer pre-set by an outer layer: " + f.Detail
		return f
	}
	return nil
}

func c09DiagP(name string, r vlib.Req, preset map[string][]string) *vlib.Failure {
	mOff, err1 := smFresh(smRef{name, false})
	mOn, err2 := smFresh(smRef{name, true})
	if err1 != nil || err2 != nil {
		return vlib.Failf("configuration %s rejected: %v %v", name, err1, err2)
	}
	innerOff, innerOn := &vlib.Noop{}, &vlib.Noop{}
	a := vlib.Serve(mOff.Wrap(innerOff), &innerOff.Calls, r, preset)
	b := vlib.Serve(mOn.Wrap(innerOn), &innerOn.Calls, r, preset)
	if a.ExtraWrites > 0 || b.ExtraWrites > 0 {
		return vlib.Failf("configuration %s: the middleware calls WriteHeader more than once for %s (debug off: %d extra calls, debug on: %d)", name, r, a.ExtraWrites, b.ExtraWrites)
	}
	if isPre := r.Method == "OPTIONS" && len(r.Hdr["Origin"]) > 0 && len(r.Hdr["Access-Control-Request-Method"]) > 0; isPre && a.Status/100 != 2 {
		// a failure at the method step (with debug off the request fails even without its ACRH / ACRPN lines, and
		// succeeds once it asks for GET instead): debug mode reports how far the preflight got, it does not let the
		// method through - no Allow-Methods, no Allow-Headers, no Max-Age
		strip := func(method string) vlib.Req {
			hdr := map[string][]string{"Origin": r.Hdr["Origin"], "Access-Control-Request-Method": {method}}
			return vlib.Req{Method: "OPTIONS", Hdr: hdr}
		}
		own := vlib.Serve(mOff.Wrap(innerOff), &innerOff.Calls, strip(r.Hdr["Access-Control-Request-Method"][0]), preset)
		get := vlib.Serve(mOff.Wrap(innerOff), &innerOff.Calls, strip("GET"), preset)
		if own.Status/100 != 2 && get.Status/100 == 2 && len(get.Hdr["Access-Control-Allow-Origin"]) > 0 {
			for _, hk := range []string{"Access-Control-Allow-Methods", "Access-Control-Allow-Headers", "Access-Control-Max-Age"} {
				if v, ok := b.Hdr[hk]; ok {
					return vlib.Failf("configuration %s: the preflight %s fails at the method step (debug off: %d, and %d without its other request headers; %d when it asks for GET), yet with debug on the answer carries %s=%q", name, r, a.Status, own.Status, get.Status, hk, v)
				}
			}
		}
		for hk := range a.Hdr {
			if strings.HasPrefix(hk, "Access-Control-") {
				return vlib.Failf("configuration %s, debug off: the failing preflight %s carries %s=%q (diagnostics belong to debug mode only)", name, r, hk, a.Hdr[hk])
			}
		}
	}
	if a.Sig() == b.Sig() {
		return nil
	}
	offSig, onSig := a.Sig(), b.Sig()
	isPreflight := r.Method == "OPTIONS" && len(r.Hdr["Origin"]) > 0 && len(r.Hdr["Access-Control-Request-Method"]) > 0
	var why string
	switch {
	case !isPreflight:
		why = "the request is not a preflight"
	case a.HandlerCalls != b.HandlerCalls || fmt.Sprint(a.Hdr["Vary"]) != fmt.Sprint(b.Hdr["Vary"]) || a.Body != b.Body:
		why = "handler invocation, Vary or body differ"
	case a.Status/100 == 2:
		// the debug-mode rendering of Access-Control-Allow-Headers must still grant every requested name
		if names, _, ok := ref.ExtractList(b.Hdr, "Access-Control-Allow-Headers"); ok {
			star := false
			for _, n := range names {
				if n == "*" {
					star = true
				}
			}
			for _, line := range r.Hdr["Access-Control-Request-Headers"] {
				for _, el := range strings.Split(line, ",") {
					el = strings.Trim(el, " \t")
					if el == "" {
						continue
					}
					found := star && !smCfgs[name].Credentialed && !strings.EqualFold(el, "authorization")
					for _, n := range names {
						if strings.EqualFold(n, el) {
							found = true
						}
					}
					if !found {
						why = "a preflight that succeeds with debug off is answered in debug mode with an Access-Control-Allow-Headers value that does not cover the requested name " + el
					}
				}
			}
		}
		delete(a.Hdr, "Access-Control-Allow-Headers")
		delete(b.Hdr, "Access-Control-Allow-Headers")
		if a.Sig() != b.Sig() {
			why = "a preflight that succeeds with debug off differs in more than Access-Control-Allow-Headers"
		}
	default:
		for hk := range b.Hdr {
			if _, outer := preset[hk]; outer {
				continue
			}
			if hk != "Vary" && (!strings.HasPrefix(hk, "Access-Control-") || hk == "Access-Control-Expose-Headers") {
				why = "debug mode adds header " + hk + " to a failing preflight"
			}
		}
		// diagnostics describe the steps that passed; the origin step comes first and establishes Allow-Origin, so a
		// debug-mode answer without Allow-Origin has nothing to describe
		if len(b.Hdr["Access-Control-Allow-Origin"]) == 0 {
			for hk := range b.Hdr {
				if strings.HasPrefix(hk, "Access-Control-") {
					why = "debug mode adds " + hk + " to a preflight whose origin step did not pass (no Access-Control-Allow-Origin)"
				}
			}
		}
		want := smCfgs[name].Status
		if want == 0 {
			want = 204
		}
		if b.Status != a.Status && b.Status != want {
			why = fmt.Sprintf("debug mode changes the failure status from %d to %d (configured ok status: %d)", a.Status, b.Status, want)
		}
	}
	if why != "" {
		return vlib.Failf("configuration %s: debug mode changes the response to %s: %s\n off: %s\n on:  %s", name, r, why, offSig, onSig)
	}
	// "partial headers": the debug-mode answer to a preflight that fails at the method or header step carries
	// what the steps before it established. The counterpart request (same Origin and ACRPN, safelisted method, no
	// ACRH) passes those steps too; if it succeeds, its Allow-Origin / -Credentials / -Private-Network values must
	// all be present on the debug-mode answer to the failing request. Likewise for a failure at the PNA step with
	// the counterpart that does not ask for private-network access.
	if a.Status/100 != 2 {
		for _, drop := range []string{"method+headers", "pna"} {
			hdr := map[string][]string{}
			for k, v := range r.Hdr {
				hdr[k] = v
			}
			if drop == "pna" {
				delete(hdr, "Access-Control-Request-Private-Network")
			}
			hdr["Access-Control-Request-Method"] = []string{"GET"}
			delete(hdr, "Access-Control-Request-Headers")
			cp := vlib.Serve(mOn.Wrap(innerOn), &innerOn.Calls, vlib.Req{Method: "OPTIONS", Hdr: hdr}, preset)
			if cp.Status/100 != 2 || len(cp.Hdr["Access-Control-Allow-Origin"]) == 0 {
				continue // the counterpart fails too: an earlier step is at fault
			}
			for _, hk := range []string{"Access-Control-Allow-Origin", "Access-Control-Allow-Credentials", "Access-Control-Allow-Private-Network"} {
				if want, ok := cp.Hdr[hk]; ok && fmt.Sprint(b.Hdr[hk]) != fmt.Sprint(want) {
					return vlib.Failf("configuration %s, debug on: the failing preflight %s is answered without %s=%q although the steps that establish it passed (counterpart without %s succeeds with it)\n on: %s", name, r, hk, want, drop, onSig)
				}
			}
			// the failure is at the header step if the counterpart that keeps the method (and drops only ACRH) succeeds:
			// the diagnostics then are the full list of configured request-header names
			if l := smCfgs[name]; drop == "method+headers" && len(r.Hdr["Access-Control-Request-Headers"]) > 0 && len(l.RequestHeaders) > 0 && !slices.Contains(l.RequestHeaders, "*") {
				hdr2 := map[string][]string{}
				for k, v := range r.Hdr {
					if k != "Access-Control-Request-Headers" {
						hdr2[k] = v
					}
				}
				// (judged with debug off: only there does a 2xx status mean success)
				if cp2 := vlib.Serve(mOff.Wrap(innerOff), &innerOff.Calls, vlib.Req{Method: "OPTIONS", Hdr: hdr2}, preset); cp2.Status/100 == 2 && len(cp2.Hdr["Access-Control-Allow-Origin"]) > 0 {
					listed, _, _ := ref.ExtractList(b.Hdr, "Access-Control-Allow-Headers")
					for _, n := range l.RequestHeaders {
						found := false
						for _, x := range listed {
							if strings.EqualFold(x, n) {
								found = true
							}
						}
						if !found {
							return vlib.Failf("configuration %s, debug on: the preflight %s fails at the header step, yet the answer does not list the configured request-header name %q (Access-Control-Allow-Headers=%q)", name, r, n, b.Hdr["Access-Control-Allow-Headers"])
						}
					}
				}
			}
			break
		}
	}
	return nil
}

func checkC09(c *vlib.Ctx) (string, string) {
	ck := &Checker[c09Case]{C: c, Judge: c09Judge, Test: c09Test, Watchdog: 20 * time.Second}
	rule := "explicit-state BFS to closure over {SetDebug(true/false), Reconfigure(nil/A/B/C/invalid/Config())} on the real Middleware from NewMiddleware(A) and from the zero value (states deduplicated by a reflective dump of the middleware), every transition compared with the documented state machine and with a middleware freshly built for the reference state on a probe suite; stateless cross-check over all histories up to the stated length; non-trivial = distinct history (stateless pass) that ends in a configured state with debug on"
	if ck.Replay() {
		return levelMC, rule
	}
	if f := smEnsure(); f != nil {
		ck.Report(c09Case{Init: "zero"}, f)
		return levelMC, rule
	}
	for _, init := range []string{"new(A)", "zero"} {
		toCase := func(hist []uint8) c09Case {
			k := c09Case{Init: init}
			for _, o := range hist {
				k.Ops = append(k.Ops, smOps[o])
			}
			return k
		}
		s := &vlib.SeqSearch{
			NOps: len(smOps),
			What: "C09 " + init,
			Run: func(hist []uint8) (string, *vlib.Failure) {
				k := toCase(hist)
				// replay without intermediate checks, then check the last transition and the state reached
				m, r, err := smInit(init)
				if err != nil {
					return "", vlib.Failf("configuration A rejected: %v", err)
				}
				var f *vlib.Failure
				for i, op := range k.Ops {
					var mustErr bool
					r, mustErr = r.step(op)
					e := smApply(m, op)
					if i == len(k.Ops)-1 && (e != nil) != mustErr {
						f = vlib.Failf("%s returned err=%v (error expected: %t)", op, e, mustErr)
					}
				}
				if f == nil {
					f = c09Check(m, r, fmt.Sprintf("%v from %s", k.Ops, init))
				}
				return vlib.Dump(m), f
			},
			OnFail: func(hist []uint8, f *vlib.Failure) {
				k := toCase(hist)
				if jf := vlib.Guard(func() *vlib.Failure { return c09Judge(k) }); jf != nil {
					ck.Report(k, jf)
				} else {
					vlib.HarnessError("BFS and judge disagree on %+v: %s", k, f.Detail)
				}
			},
		}
		r := s.BFS(c)
		c.States.Add(int64(r.States))
		c.Transitions.Add(int64(r.Transitions))
		c.Evaluations.Add(int64(r.Transitions) * int64(len(smSuite)))
		c.Set("closure_"+init, map[string]any{"states": r.States, "transitions": r.Transitions, "depth": r.Depth, "closed": r.Closed, "new_states_per_level": r.PerLevel})
		if !r.Closed {
			c.Cap("closure not reached from " + init)
		}
		for _, h := range r.Sample {
			c.Sample(toCase(h))
		}
		// stateless cross-check: all histories up to length d, no deduplication, every step checked
		d := vlib.Pick(c, 4, 6)
		w := vlib.NewWords(smOps, d)
		c.ParRange(w.Count(), 8, "C09 stateless "+init, func(i int64) {
			var tmp [8]int
			syms := w.Syms(i, tmp[:0])
			if len(syms) != d {
				return // shorter histories are prefixes of the longest ones, which are checked at every step
			}
			k := c09Case{Init: init}
			ref := smRef{}
			if init != "zero" {
				ref.cfg = "A"
			}
			for _, sy := range syms {
				k.Ops = append(k.Ops, smOps[sy])
				ref, _ = ref.step(smOps[sy])
			}
			if ref.cfg != "" && ref.debug {
				c.Nontrivial.Add(1)
			}
			c.Transitions.Add(int64(d))
			ck.Try(k)
		})
		c.Set("stateless_history_length", d)
		if c.Stopped() {
			return levelMC, rule
		}
	}
	for _, name := range smDiag {
		for i := range smSuiteFull {
			r := smSuiteFull[i]
			c.Transitions.Add(2)
			ck.Try(c09Case{Init: "debug-only-diagnostics", DiagCfg: name, DiagReq: &r})
		}
	}
	// long allowed lists: every name requested on its own, debug off and on (the debug-mode answer must still cover it)
	for _, n := range []int{400, 1500} {
		var names []string
		for i := 0; i < n; i++ {
			names = append(names, fmt.Sprintf("X-Header-%04d", i))
		}
		bigCfg := CfgLit{Origins: []string{"https://a.example"}, RequestHeaders: names, Methods: []string{"PUT"}, MaxAge: 60}
		mOff, e1 := cors.NewMiddleware(bigCfg.Config())
		mOn, e2 := cors.NewMiddleware(bigCfg.Config())
		if e1 != nil || e2 != nil {
			continue
		}
		mOn.SetDebug(true)
		hOff, hOn := mOff.Wrap(noopHandler), mOn.Wrap(noopHandler)
		for i := 0; i < n; i++ {
			r := vlib.Req{Method: "OPTIONS", Hdr: map[string][]string{"Origin": {"https://a.example"}, "Access-Control-Request-Method": {"PUT"}, "Access-Control-Request-Headers": {strings.ToLower(names[i])}}}
			c.Transitions.Add(2)
			a, b := vlib.Serve(hOff, nil, r, nil), vlib.Serve(hOn, nil, r, nil)
			ok := a.Status == b.Status && a.Status/100 == 2
			if ok {
				ok = false
				listed, _, _ := ref.ExtractList(b.Hdr, "Access-Control-Allow-Headers")
				for _, l := range listed {
					if strings.EqualFold(l, names[i]) {
						ok = true
					}
				}
			}
			if !ok {
				k := c09Case{Init: "debug-only-diagnostics", DiagCfg: fmt.Sprintf("big:%d", n), DiagReq: &r}
				ck.Report(k, vlib.Failf("configuration with %d allowed request-header names: a preflight asking for %q is answered %s with debug off and %s with debug on", n, names[i], a.Sig()[:min(200, len(a.Sig()))], b.Sig()[:min(200, len(b.Sig()))]))
				break
			}
		}
	}
	c.Set("probe_suite_requests", len(smSuite))
	return levelMC, rule
}

func init() { registry["C09"] = checkC09 }
