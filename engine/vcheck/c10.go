package main

import (
	"encoding/json"
	"fmt"
	"net/http"
	"os"
	"strings"

	"github.com/jub0bs/cors"
	"github.com/jub0bs/cors/internal/zzverif/vlib"
)

// C10 — Vary is sufficient: cache-equivalent requests get identical CORS treatment (2-safety).

type c10Case struct {
	Passthrough bool     `json:"passthrough,omitempty"`
	Cfg         CfgLit   `json:"config"`
	Debug       bool     `json:"debug"`
	Preset      []string `json:"preset_vary,omitempty"`
	R1          vlib.Req `json:"r1"`
	R2          vlib.Req `json:"r2"`
	// History: before the pair is served, the same middleware serves a few requests whose wrapped handler
	// overwrites in place the header slices it can reach (the pair itself is served with the constant handler)
	History bool `json:"adversarial_history,omitempty"`
	// Order: R1 == R2; the first response is taken while the whole request alphabet is served in order on one
	// middleware, the second while it is served in reverse order on another one (a request is certainly
	// cache-equivalent to itself, whatever was served before it)
	Order    bool `json:"order_of_other_requests,omitempty"`
	Thorough bool `json:"thorough_alphabet,omitempty"`
	// Between != nil: R1 == R2, and everything happens in a freshly started process (see "fresh processes" in
	// main.go): R1 is served, then Between is served - by a handler that overwrites in place the header slices it can
	// reach, behind an outer layer that appends to every value slice of the response once the call has returned -
	// then R2. A request is cache-equivalent to itself: both answers must be the same.
	Between *vlib.Req `json:"in_a_fresh_process_with_this_request_in_between,omitempty"`
	// Accessors: R1 == R2; the middleware is built and nothing else is called on it before R1; between R1 and R2
	// only calls that change nothing are made: Config(), SetDebug with the current mode, Wrap of another handler,
	// a Reconfigure that is rejected
	Accessors bool `json:"only_accessor_calls_in_between,omitempty"`
}

func c10JudgeAccessors(k c10Case) *vlib.Failure {
	m := new(cors.Middleware)
	if !k.Passthrough {
		var err error
		if m, err = cors.NewMiddleware(k.Cfg.Config()); err != nil {
			return vlib.Failf("configuration of the C10 alphabet rejected: %v", err)
		}
		m.SetDebug(k.Debug)
	}
	h := m.Wrap(&vlib.Noop{})
	first := c10Plain(h, k.R1)
	cfg := m.Config()
	m.SetDebug(k.Debug && !k.Passthrough)
	m.Wrap(&vlib.Noop{})
	bad := cors.Config{Origins: []string{"https://ok.example", "https://not ok.example"}}
	if err := m.Reconfigure(&bad); err == nil {
		return vlib.Failf("invalid auxiliary configuration accepted")
	}
	_ = m.Config()
	if second := c10Plain(h, k.R2); second != first {
		return vlib.Failf("%s is answered\n  %s\nthen Config() (= %+v), SetDebug(%t), Wrap and a rejected Reconfigure are called, and the same request is answered\n  %s", k.R1, first, cfg, k.Debug, second)
	}
	return nil
}

// c10Pre: what an outer layer has put into the response header map before the middleware runs: the Vary values of
// the case and the cache directives of a layer that forbids storing by default (the wrapped handler may relax them).
func c10Pre(vary []string) map[string][]string {
	return map[string][]string{"Vary": vary, "Cache-Control": {"no-store"}, "Pragma": {"no-cache"}, "Expires": {"0"}, "Surrogate-Control": {"no-store"}, "Age": {"0"}}
}

// c10Plain serves r and leaves the response alone.
func c10Plain(h http.Handler, r vlib.Req) string {
	rec := vlib.NewRec()
	h.ServeHTTP(rec, r.HTTP())
	res := vlib.Resp{Status: rec.Status, Hdr: map[string][]string{}, Body: string(rec.Body)}
	for k, v := range rec.H {
		if len(v) > 0 {
			res.Hdr[k] = append([]string(nil), v...)
		}
	}
	return res.Sig()
}

func c10JudgeBetween(k c10Case) *vlib.Failure {
	if os.Getenv(childEnv) == "" {
		if d, bad := inFreshProcess("C10", []c10Case{k})[0]; bad {
			return vlib.Failf("%s", d)
		}
		return nil
	}
	h, _, m, err := c10BuildM(k.Passthrough, k.Cfg, k.Debug)
	if err != nil {
		return vlib.Failf("configuration of the C10 alphabet rejected: %v", err)
	}
	first := c10Plain(h, k.R1)
	hs, in := m.Wrap(scribbler{}), &vlib.Noop{}
	vlib.Serve(m.Wrap(in), &in.Calls, *k.Between, nil)
	rec := vlib.NewRec()
	hs.ServeHTTP(rec, k.Between.HTTP())
	for hk, hv := range rec.H {
		rec.H[hk] = append(hv, "appended-by-an-outer-layer")
	}
	vlib.Serve(m.Wrap(in), &in.Calls, *k.Between, map[string][]string{"Vary": {"Accept-Encoding"}})
	if second := c10Plain(h, k.R2); second != first {
		return vlib.Failf("in a freshly started process %s is answered\n  %s\nthen %s is served (its response header slices are appended to and overwritten by the layers that own that response), and the first request, sent again, is answered\n  %s", k.R1, first, *k.Between, second)
	}
	// a middleware built afterwards in the same process answers the same way too
	h2, _, _, err := c10BuildM(k.Passthrough, k.Cfg, k.Debug)
	if err != nil {
		return vlib.Failf("configuration of the C10 alphabet rejected: %v", err)
	}
	if third := c10Plain(h2, k.R2); third != first {
		return vlib.Failf("in a freshly started process %s is answered\n  %s\nthen %s is served (its response header slices are appended to and overwritten by the layers that own that response); a middleware built afterwards for the same configuration answers the first request with\n  %s", k.R1, first, *k.Between, third)
	}
	return nil
}

func c10Build(passthrough bool, l CfgLit, debug bool) (http.Handler, *vlib.Noop, error) {
	h, inner, _, err := c10BuildM(passthrough, l, debug)
	return h, inner, err
}

func c10BuildM(passthrough bool, l CfgLit, debug bool) (http.Handler, *vlib.Noop, *cors.Middleware, error) {
	inner := &vlib.Noop{}
	if passthrough {
		m := new(cors.Middleware)
		return m.Wrap(inner), inner, m, nil
	}
	cfg := l.Config()
	m, err := cors.NewMiddleware(cfg)
	if err != nil {
		return nil, nil, nil, err
	}
	scribbleConfig(&cfg)
	scribbleConfig(m.Config())
	m.SetDebug(debug)
	return m.Wrap(inner), inner, m, nil
}

// c10History serves a few requests of every kind through m with a handler that scribbles over every header
// slice it can reach, with and without a Vary value set earlier in the chain.
func c10History(m *cors.Middleware) {
	h := m.Wrap(scribbler{})
	for _, r := range []vlib.Req{
		{Method: "GET"}, {Method: "OPTIONS"}, {Method: "PUT"},
		{Method: "GET", Hdr: map[string][]string{"Origin": {"https://a.example"}}},
		{Method: "OPTIONS", Hdr: map[string][]string{"Origin": {"https://b.example"}}},
		{Method: "GET", Hdr: map[string][]string{"Origin": {"https://evil.example"}}},
		{Method: "OPTIONS", Hdr: map[string][]string{"Origin": {"https://a.example"}, "Access-Control-Request-Method": {"PUT"}, "Access-Control-Request-Headers": {"x-a"}}},
	} {
		for _, pre := range [][]string{nil, {"before"}} {
			rec := vlib.NewRec()
			if pre != nil {
				rec.H["Vary"] = append([]string(nil), pre...)
			}
			h.ServeHTTP(rec, r.HTTP())
		}
	}
}

// varyNames returns the canonical header names listed in the Vary field lines.
func varyNames(v []string) []string {
	var out []string
	for _, line := range v {
		for _, el := range strings.Split(line, ",") {
			el = strings.TrimSpace(el)
			if el != "" {
				out = append(out, http.CanonicalHeaderKey(el))
			}
		}
	}
	return out
}

func fieldLines(r vlib.Req, name string) string {
	v := r.Hdr[name]
	if len(v) == 0 {
		return "\x00absent" // a key with zero values produces no field line
	}
	return strings.Join(v, "\x1f")
}

func c10Compare(preset []string, r1, r2 vlib.Req, a, b vlib.Resp) *vlib.Failure {
	// Vary values set earlier in the chain are preserved, in order, before anything appended
	for _, res := range []vlib.Resp{a, b} {
		v := res.Hdr["Vary"]
		if len(v) < len(preset) {
			return vlib.Failf("pre-set Vary %q not preserved: %q", preset, v)
		}
		for i := range preset {
			if v[i] != preset[i] {
				return vlib.Failf("pre-set Vary %q not preserved in place: %q", preset, v)
			}
		}
	}
	if r1.Method != r2.Method {
		return nil
	}
	for _, n := range varyNames(a.Hdr["Vary"]) {
		if n == "*" {
			return nil
		}
		if fieldLines(r1, n) != fieldLines(r2, n) {
			return nil // the cache would not reuse response 1 for request 2
		}
	}
	if a.Sig() != b.Sig() {
		return vlib.Failf("requests agree on every header named in Vary %q of the first response but are treated differently:\n r1=%s -> %s\n r2=%s -> %s", a.Hdr["Vary"], r1, a.Sig(), r2, b.Sig())
	}
	return nil
}

func c10Judge(k c10Case) *vlib.Failure {
	if k.Between != nil {
		return c10JudgeBetween(k)
	}
	if k.Accessors {
		return c10JudgeAccessors(k)
	}
	h, inner, m, err := c10BuildM(k.Passthrough, k.Cfg, k.Debug)
	if err != nil {
		return vlib.Failf("configuration of the C10 alphabet rejected: %v", err)
	}
	if k.Order {
		h2, inner2, m2, err := c10BuildM(k.Passthrough, k.Cfg, k.Debug)
		if err != nil {
			return vlib.Failf("configuration of the C10 alphabet rejected: %v", err)
		}
		if k.History {
			c10History(m)
			c10History(m2)
		}
		var pre map[string][]string
		if k.Preset != nil {
			pre = c10Pre(k.Preset)
		}
		reqs := c10Requests(k.Thorough)
		var a, b vlib.Resp
		target := k.R1.String()
		for i := range reqs {
			if r := vlib.Serve(h, &inner.Calls, reqs[i], pre); reqs[i].String() == target {
				a = r
			}
			j := len(reqs) - 1 - i
			if r := vlib.Serve(h2, &inner2.Calls, reqs[j], pre); reqs[j].String() == target {
				b = r
			}
		}
		if a.Sig() != b.Sig() {
			return vlib.Failf("the same request %s is answered differently depending on the requests served before it (whole alphabet in order: %s; in reverse order: %s)", k.R1, a.Sig(), b.Sig())
		}
		return nil
	}
	if k.History {
		c10History(m)
	}
	var pre map[string][]string
	if k.Preset != nil {
		pre = c10Pre(k.Preset)
	}
	a := vlib.Serve(h, &inner.Calls, k.R1, pre)
	b := vlib.Serve(h, &inner.Calls, k.R2, pre)
	return c10Compare(k.Preset, k.R1, k.R2, a, b)
}

func c10Test(k c10Case) string {
	return fmt.Sprintf(`package cors_test

import ("net/http"; "net/http/httptest"; "testing"; "github.com/jub0bs/cors")

// Both requests have the same method and agree on every request header named in the Vary header of the
// first response; a cache honouring Vary may answer the second with the first response, so both responses
// must be identical.
func TestC10Replay(t *testing.T) {
	m, err := cors.NewMiddleware(%s) // passthrough=%t: use new(cors.Middleware) instead
	if err != nil { t.Fatal(err) }
	m.SetDebug(%t)
	h := m.Wrap(http.HandlerFunc(func(http.ResponseWriter, *http.Request) {}))
	var got [2]http.Header; var codes [2]int
	for i, r := range []struct{ method string; hdr http.Header }{{%q, %#v}, {%q, %#v}} {
		req := httptest.NewRequest(r.method, "/", nil); req.Header = r.hdr
		rec := httptest.NewRecorder()
		for _, v := range %#v { rec.Header().Add("Vary", v) }
		h.ServeHTTP(rec, req); got[i], codes[i] = rec.Header(), rec.Code
	}
	t.Logf("%%d %%v\n%%d %%v", codes[0], got[0], codes[1], got[1])
}
`, k.Cfg.GoLiteral(), k.Passthrough, k.Debug, k.R1.Method, http.Header(k.R1.Hdr), k.R2.Method, http.Header(k.R2.Hdr), k.Preset)
}

func c10Requests(more bool) []vlib.Req {
	full := true
	methods := []string{"GET", "OPTIONS", "PUT"}
	origins := [][]string{nil, {}, {"https://a.example"}, {"https://b.example"}, {"https://evil.example"}, {"https://a.example/"}}
	acrms := [][]string{nil, {"GET"}, {"PUT"}, {"DELETE"}}
	acrhs := [][]string{nil, {"x-a"}, {"x-z"}}
	acrpns := [][]string{nil, {"true"}, {"false"}}
	unrel := [][]string{nil, {"1"}}
	if full {
		methods = append(methods, "HEAD")
		origins = append(origins, []string{"https://a.example", "https://b.example"}, []string{""})
		acrms = append(acrms, []string{}, []string{""})
		acrhs = append(acrhs, []string{"x-a", "x-a"}, []string{}, []string{"x-a", "x-z"})
	}
	if more {
		methods = append(methods, "options", "POST")
		origins = append(origins, []string{"https://b.example", "https://a.example"}, []string{"null"})
		acrms = append(acrms, []string{"put"}, []string{"PUT", "GET"})
		acrhs = append(acrhs, []string{"x-a,x-z"}, []string{"x-a", ""})
		acrpns = append(acrpns, []string{"true", "true"}, []string{})
	}
	var out []vlib.Req
	for _, m := range methods {
		for _, o := range origins {
			for _, am := range acrms {
				for _, ah := range acrhs {
					for _, ap := range acrpns {
						for _, u := range unrel {
							h := map[string][]string{}
							if o != nil {
								h["Origin"] = o
							}
							if am != nil {
								h["Access-Control-Request-Method"] = am
							}
							if ah != nil {
								h["Access-Control-Request-Headers"] = ah
							}
							if ap != nil {
								h["Access-Control-Request-Private-Network"] = ap
							}
							if u != nil {
								// the unrelated header rotates through names a CORS middleware has no business reading
								names := []string{"X-Unrelated", "Cookie", "Authorization", "Referer", "X-Forwarded-Host", "Sec-Fetch-Mode", "Access-Control-Allow-Origin", "Host"}
								h[names[len(out)/2%len(names)]] = u
							}
							out = append(out, vlib.Req{Method: m, Hdr: h})
						}
					}
				}
			}
		}
	}
	return out
}

func c10Configs() []CfgLit {
	return []CfgLit{
		{Origins: []string{"*"}, Methods: []string{"PUT"}, RequestHeaders: []string{"X-A"}, ResponseHeaders: []string{"X-R"}},
		{Origins: []string{"https://a.example"}, Methods: []string{"PUT"}, RequestHeaders: []string{"X-A"}, ResponseHeaders: []string{"X-R"}, MaxAge: 30},
		{Origins: []string{"https://a.example", "https://b.example"}, Methods: []string{"PUT"}, RequestHeaders: []string{"X-A"}},
		{Origins: []string{"https://a.example", "https://b.example"}, Credentialed: true, Methods: []string{"*"}, RequestHeaders: []string{"*"}, ResponseHeaders: []string{"X-R"}},
		{Origins: []string{"https://a.example", "https://b.example"}, PNA: true, Methods: []string{"PUT"}, RequestHeaders: []string{"X-A"}},
		{Origins: []string{"https://a.example", "https://b.example"}, PNANoCORS: true, Methods: []string{"PUT"}, RequestHeaders: []string{"X-A"}, ResponseHeaders: []string{"X-R"}},
		{Origins: []string{"*"}, Methods: []string{"*"}, RequestHeaders: []string{"*", "Authorization"}, ResponseHeaders: []string{"*"}, Status: 200},
		{Origins: []string{"*", "https://a.example"}, Methods: []string{"PUT"}, RequestHeaders: []string{"X-A"}, ResponseHeaders: []string{"X-R"}},
		{Origins: []string{"https://b.example", "*", "https://a.example"}, RequestHeaders: []string{"*"}},
		{Origins: []string{"https://*.example:*"}, TolPSL: true, Credentialed: true, PNANoCORS: true, Methods: []string{"PUT"}, RequestHeaders: []string{"X-A", "Authorization"}, MaxAge: -1},
		{Origins: []string{"https://a.example"}},
	}
}

func checkC10(c *vlib.Ctx) (string, string) {
	ck := &Checker[c10Case]{C: c, Judge: c10Judge, Test: c10Test}
	rule := "for every configuration (incl. passthrough) x debug x pre-set Vary, responses to the whole request product are computed on the real middleware and ALL ordered pairs of requests are compared: same method and agreement on every header named in response 1's Vary must imply identical status, handler invocation and headers; non-trivial = distinct ordered pair of different requests that agree on the Vary-listed headers"
	if ck.Replay() {
		return levelMC, rule
	}
	reqs := c10Requests(c.Thorough())
	cfgs := c10Configs()
	type job struct {
		pass   bool
		lit    CfgLit
		debug  bool
		preset []string
		hist   bool
	}
	var jobs []job
	for _, pre := range [][]string{nil, {"before"}, {"Accept-Encoding", "origin"}, {"Origin-Agent-Cluster"}, {"X-Forwarded-Origin, Original-Url", "originx"}, {"Access-Control-Request-Headers-X, Access-Control-Request-Method"}} {
		jobs = append(jobs, job{pass: true, preset: pre})
		for _, l := range cfgs {
			for _, d := range []bool{false, true} {
				jobs = append(jobs, job{lit: l, debug: d, preset: pre})
			}
		}
	}
	// the same jobs once more after an adversarial history (they run after all pristine jobs: if a handler can
	// corrupt process-wide state, the pristine jobs are not affected by it)
	nPristine := len(jobs)
	for _, j := range jobs[:nPristine] {
		j.hist = true
		jobs = append(jobs, j)
	}
	universe := []string{"Origin", "Access-Control-Request-Method", "Access-Control-Request-Headers", "Access-Control-Request-Private-Network", "X-Unrelated",
		"Cookie", "Authorization", "Referer", "X-Forwarded-Host", "Sec-Fetch-Mode", "Access-Control-Allow-Origin", "Host"}
	runJob := func(ji int64) {
		j := jobs[ji]
		h, inner, m, err := c10BuildM(j.pass, j.lit, j.debug)
		if err != nil {
			ck.Report(c10Case{Cfg: j.lit}, vlib.Failf("configuration of the C10 alphabet rejected: %v", err))
			return
		}
		if j.hist {
			c10History(m)
		}
		var pre map[string][]string
		if j.preset != nil {
			pre = c10Pre(j.preset)
		}
		n := len(reqs)
		resps := make([]vlib.Resp, n)
		sigs := make([]string, n)
		lines := make([][]string, n) // per request: rendering of each universe header
		vmask := make([]int, n)      // per request: which universe headers response's Vary names
		for i, r := range reqs {
			resps[i] = vlib.Serve(h, &inner.Calls, r, pre)
			sigs[i] = resps[i].Sig()
			for _, u := range universe {
				lines[i] = append(lines[i], fieldLines(r, u))
			}
			for _, vn := range varyNames(resps[i].Hdr["Vary"]) {
				for ui, u := range universe {
					if vn == u {
						vmask[i] |= 1 << ui
					}
				}
			}
			if f := c10Compare(j.preset, r, r, resps[i], resps[i]); f != nil {
				ck.Report(c10Case{Passthrough: j.pass, Cfg: j.lit, Debug: j.debug, Preset: j.preset, R1: r, R2: r, History: j.hist}, f)
			}
		}
		// the same alphabet in reverse order on a second middleware: every request is cache-equivalent to itself
		h2, inner2, m2, err2 := c10BuildM(j.pass, j.lit, j.debug)
		if err2 == nil {
			if j.hist {
				c10History(m2)
			}
			for i := n - 1; i >= 0; i-- {
				if r := vlib.Serve(h2, &inner2.Calls, reqs[i], pre); r.Sig() != sigs[i] {
					k := c10Case{Passthrough: j.pass, Cfg: j.lit, Debug: j.debug, Preset: j.preset, R1: reqs[i], R2: reqs[i], History: j.hist, Order: true, Thorough: c.Thorough()}
					if f := vlib.Guard(func() *vlib.Failure { return c10Judge(k) }); f != nil {
						ck.Report(k, f)
					} else {
						vlib.HarnessError("fast path and judge disagree on %+v", k)
					}
					break
				}
			}
			c.Transitions.Add(int64(n))
		}
		// dictionary pass: a representative request of every (method, Origin, ACRM) class with one more header that
		// browsers, proxies or frameworks really send; unless the first response's Vary names that header, the pair
		// is cache-equivalent and must be answered identically
		seenClass := map[string]bool{}
		for i, r := range reqs {
			cls := r.Method + "|" + fieldLines(r, "Origin") + "|" + fieldLines(r, "Access-Control-Request-Method")
			if seenClass[cls] || len(r.Hdr) > 3 {
				continue
			}
			seenClass[cls] = true
			listed := map[string]bool{}
			for _, vn := range varyNames(resps[i].Hdr["Vary"]) {
				listed[vn] = true
			}
			// request properties other than headers
			for _, a := range vlib.Attrs {
				r2 := vlib.Req{Method: r.Method, Hdr: r.Hdr, Attr: a}
				c.Transitions.Add(1)
				if got := vlib.Serve(h, &inner.Calls, r2, pre); got.Sig() != sigs[i] && !listed["*"] {
					k := c10Case{Passthrough: j.pass, Cfg: j.lit, Debug: j.debug, Preset: j.preset, R1: r, R2: r2, History: j.hist}
					if f := vlib.Guard(func() *vlib.Failure { return c10Judge(k) }); f != nil {
						ck.Report(k, f)
					} else {
						vlib.HarnessError("attribute pass and judge disagree on %+v", k)
					}
				}
			}
			// two headers at once (first value of every pair of distinct names), on pristine jobs without pre-set Vary
			if j.preset == nil && !j.hist && !listed["*"] {
				var firsts [][2]string
				seenName := map[string]bool{}
				for _, e := range requestHeaderDictionary {
					if !seenName[e[0]] && !listed[http.CanonicalHeaderKey(e[0])] {
						seenName[e[0]] = true
						firsts = append(firsts, e)
					}
				}
				firsts = append(firsts, [2]string{"Upgrade", "websocket"}, [2]string{"Connection", "Upgrade"}, [2]string{"Sec-Fetch-Mode", "websocket"}, [2]string{"Sec-Fetch-Site", "same-origin"})
				for x := range firsts {
					for y := x + 1; y < len(firsts); y++ {
						if firsts[x][0] == firsts[y][0] {
							continue
						}
						r2 := withDictionaryHeader(withDictionaryHeader(r, firsts[x]), firsts[y])
						c.Transitions.Add(1)
						if got := vlib.Serve(h, &inner.Calls, r2, pre); got.Sig() != sigs[i] {
							k := c10Case{Passthrough: j.pass, Cfg: j.lit, Debug: j.debug, Preset: j.preset, R1: r, R2: r2, History: j.hist}
							if f := vlib.Guard(func() *vlib.Failure { return c10Judge(k) }); f != nil {
								ck.Report(k, f)
							} else {
								vlib.HarnessError("pair pass and judge disagree on %+v", k)
							}
						}
					}
				}
			}
			for _, e := range requestHeaderDictionary {
				if listed[http.CanonicalHeaderKey(e[0])] || listed["*"] {
					continue
				}
				r2 := withDictionaryHeader(r, e)
				c.Transitions.Add(1)
				if got := vlib.Serve(h, &inner.Calls, r2, pre); got.Sig() != sigs[i] {
					k := c10Case{Passthrough: j.pass, Cfg: j.lit, Debug: j.debug, Preset: j.preset, R1: r, R2: r2, History: j.hist}
					if f := vlib.Guard(func() *vlib.Failure { return c10Judge(k) }); f != nil {
						ck.Report(k, f)
					} else {
						vlib.HarnessError("dictionary pass and judge disagree on %+v", k)
					}
				}
			}
		}
		c.States.Add(int64(n))
		var pairs, nontrivial int64
		for a := 0; a < n; a++ {
			for b := 0; b < n; b++ {
				if reqs[a].Method != reqs[b].Method {
					continue
				}
				pairs++
				agree := true
				for ui := range universe {
					if vmask[a]&(1<<ui) != 0 && lines[a][ui] != lines[b][ui] {
						agree = false
						break
					}
				}
				if !agree {
					continue
				}
				if a != b {
					nontrivial++
				}
				if sigs[a] != sigs[b] {
					k := c10Case{Passthrough: j.pass, Cfg: j.lit, Debug: j.debug, Preset: j.preset, R1: reqs[a], R2: reqs[b], History: j.hist}
					if f := vlib.Guard(func() *vlib.Failure { return c10Judge(k) }); f != nil {
						ck.Report(k, f)
					} else {
						vlib.HarnessError("fast path and judge disagree on %+v", k)
					}
				}
			}
		}
		c.Evaluations.Add(pairs)
		c.Transitions.Add(int64(n))
		c.Nontrivial.Add(nontrivial)
		if ji < 4 {
			c.Sample(c10Case{Passthrough: j.pass, Cfg: j.lit, Debug: j.debug, Preset: j.preset, R1: reqs[n/3], R2: reqs[n/3+1], History: j.hist})
		}
	}
	c.ParRange(int64(nPristine), 1, "C10 pristine jobs", runJob)
	if !c.Stopped() {
		c.ParRange(int64(len(jobs)-nPristine), 1, "C10 jobs after an adversarial history", func(i int64) { runJob(i + int64(nPristine)) })
	}
	// calls that change nothing, between two copies of a request, on a middleware nothing else was called on
	ap := vlib.Product{Sizes: []int{len(cfgs) + 1, 2, len(reqs)}}
	c.ParRange(ap.Count(), 64, "C10 accessor calls in between", func(i int64) {
		var tmp [3]int
		ix := ap.At(i, tmp[:0])
		k := c10Case{Debug: ix[1] == 1, R1: reqs[ix[2]], R2: reqs[ix[2]], Accessors: true}
		if ix[0] == len(cfgs) {
			k.Passthrough = true
		} else {
			k.Cfg = cfgs[ix[0]]
		}
		c.Transitions.Add(2)
		ck.Try(k)
	})
	c.States.Add(ap.Count())
	// process histories: one request between two copies of another, in a process of its own
	kinds := []vlib.Req{
		{Method: "GET"}, {Method: "OPTIONS"},
		{Method: "GET", Hdr: map[string][]string{"Origin": {"https://a.example"}}},
		{Method: "GET", Hdr: map[string][]string{"Origin": {"https://denied.example"}}},
		{Method: "OPTIONS", Hdr: map[string][]string{"Origin": {"https://a.example"}, "Access-Control-Request-Method": {"PUT"}}},
		{Method: "OPTIONS", Hdr: map[string][]string{"Origin": {"https://a.example"}, "Access-Control-Request-Method": {"PUT"}, "Access-Control-Request-Headers": {"x-a"}, "Access-Control-Request-Private-Network": {"true"}}},
		{Method: "OPTIONS", Hdr: map[string][]string{"Origin": {"https://a.example"}, "Access-Control-Request-Method": {"DELETE"}, "Access-Control-Request-Headers": {"x-zz"}}},
		{Method: "OPTIONS", Hdr: map[string][]string{"Origin": {"https://denied.example"}, "Access-Control-Request-Method": {"PUT"}}},
	}
	var between []c10Case
	for _, l := range c10BetweenConfigs() {
		for _, d := range []bool{false, true} {
			for i := range kinds {
				for j := range kinds {
					b := kinds[j]
					between = append(between, c10Case{Cfg: l, Debug: d, R1: kinds[i], R2: kinds[i], Between: &b})
				}
			}
		}
	}
	c.ParRange(int64(len(between)), 1, "C10 fresh processes", func(i int64) {
		c.States.Add(1)
		c.Transitions.Add(6)
		ck.Try(between[i])
	})
	c.Set("fresh_process_histories", len(between))
	c.Set("requests_per_job", len(reqs))
	c.Set("jobs_config_x_debug_x_preset", len(jobs))
	return levelMC, rule
}

// c10BetweenConfigs: one configuration per set of static response values (credentialed, wildcard with and without
// Authorization, private-network access, exposed headers).
func c10BetweenConfigs() []CfgLit {
	return []CfgLit{
		{Origins: []string{"https://a.example"}, Credentialed: true, Methods: []string{"PUT"}, RequestHeaders: []string{"X-A"}, ResponseHeaders: []string{"X-R"}, MaxAge: 30, PNA: true},
		{Origins: []string{"*"}, Methods: []string{"*"}, RequestHeaders: []string{"*"}, ResponseHeaders: []string{"*"}},
		{Origins: []string{"*"}, Methods: []string{"PUT"}, RequestHeaders: []string{"*", "Authorization"}, ResponseHeaders: []string{"X-R"}},
		{Origins: []string{"https://a.example", "https://*.a.example"}, Credentialed: true, Methods: []string{"*"}, RequestHeaders: []string{"*"}, ResponseHeaders: []string{"X-R"}},
	}
}

func init() {
	registry["C10"] = checkC10
	childJudges["C10"] = func(raw json.RawMessage) *vlib.Failure {
		var k c10Case
		if err := json.Unmarshal(raw, &k); err != nil {
			vlib.HarnessError("fresh-process child: cannot decode case: %v", err)
		}
		return c10Judge(k)
	}
}
