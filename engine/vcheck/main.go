// Command vcheck runs one property check against the repository it was compiled with (go build -overlay).
package main

import (
	"bytes"
	"encoding/json"
	"fmt"
	"os"
	"os/exec"
	"runtime/debug"
	"sort"
	"sync/atomic"
	"time"

	"github.com/jub0bs/cors/internal/zzverif/vlib"
)

// A check explores its space, reports violations through the context and returns (level, rule).
type check func(c *vlib.Ctx) (level, rule string)

var registry = map[string]check{}

func main() {
	debug.SetGCPercent(800) // enumeration produces short-lived garbage only; fewer collections, better scaling
	c := vlib.NewCtx()
	if os.Getenv(childEnv) != "" {
		childMain(c.Prop)
	}
	f := registry[c.Prop]
	if f == nil {
		ids := make([]string, 0, len(registry))
		for id := range registry {
			ids = append(ids, id)
		}
		sort.Strings(ids)
		vlib.HarnessError("unknown property %q (have %v)", c.Prop, ids)
	}
	level, rule := f(c)
	os.Exit(c.Finish(level, rule))
}

// Checker couples a judge (runs the real code on one case and compares with the oracle) with replay-file
// handling: exploration, the five re-runs of a failing witness and --replay all go through the same judge.
type Checker[K any] struct {
	C     *vlib.Ctx
	Judge func(K) *vlib.Failure
	Test  func(K) string // text of a plain _test.go reproducing the case (may be nil)
	// Watchdog > 0: a judge that has not returned after this time is a failure (a call of the code under test that
	// never returns yields no answer). For checks whose cases make control calls; costs a goroutine per case.
	Watchdog time.Duration
}

// hung is set by the first judge that ran into the watchdog: the goroutine it left behind may hold a lock of the
// harness or of the code under test, so later judges of this process are not to be trusted (and are not waited for
// as long).
var hung atomic.Bool

func (ck *Checker[K]) judge(k K) *vlib.Failure {
	if ck.Watchdog <= 0 {
		return vlib.Guard(func() *vlib.Failure { return ck.Judge(k) })
	}
	d := ck.Watchdog
	if hung.Load() {
		d /= 4
	}
	done := make(chan *vlib.Failure, 1)
	go func() { done <- vlib.Guard(func() *vlib.Failure { return ck.Judge(k) }) }()
	t := time.NewTimer(d)
	defer t.Stop()
	select {
	case f := <-done:
		return f
	case <-t.C:
		hung.Store(true)
		return vlib.Failf("the case did not finish within %v: a call into the library never returned (deadlock or endless loop)", ck.Watchdog)
	}
}

// Try judges one case; it returns true if the case passed.
func (ck *Checker[K]) Try(k K) bool {
	if ck.C.Stopped() {
		return true // enough violations have been recorded: the run is winding down
	}
	ck.C.Evaluations.Add(1)
	ck.C.Quiesce.RLock()
	f := ck.judge(k)
	ck.C.Quiesce.RUnlock()
	if f == nil {
		return true
	}
	ck.Report(k, f)
	return false
}

// Report handles a failure found by a fast path: it is confirmed through Judge before it counts.
func (ck *Checker[K]) Report(k K, f *vlib.Failure) {
	txt := ""
	if ck.Test != nil {
		txt = ck.Test(k)
	}
	ck.C.Violation(k, f, func() *vlib.Failure { return ck.judge(k) }, txt)
}

// Replay runs the witness of a replay file (if one was given) and reports whether it did.
func (ck *Checker[K]) Replay() bool {
	if ck.C.Replay == "" {
		return false
	}
	var k K
	if err := json.Unmarshal(ck.C.LoadReplay(), &k); err != nil {
		vlib.HarnessError("cannot decode witness: %v", err)
	}
	ck.C.States.Add(1)
	ck.C.Transitions.Add(1)
	ck.C.Sample(k)
	ck.Try(k)
	return true
}

const levelMC = "model_checking"

// ---- fresh processes ----
//
// Some state outlives a middleware: package-level tables of the code under test. What the first (second, ...) call
// of a process leaves behind there can only be observed by a later call of the same process, so a history that
// starts with "the process has just started" is explored by actually starting one: the harness re-executes itself
// (same binary, hence same build of /repo), hands the child an ordered list of cases, and the child judges them in
// that order with the property's ordinary judge.

const childEnv = "VCHECK_FRESH_PROCESS_CHILD"

// childJudges: per property, decode one case and judge it.
var childJudges = map[string]func(raw json.RawMessage) *vlib.Failure{}

type childResp struct {
	Fails map[int]string `json:"fails"`
}

func childMain(prop string) {
	j := childJudges[prop]
	if j == nil {
		vlib.HarnessError("no fresh-process judge for %s", prop)
	}
	var cases []json.RawMessage
	if err := json.NewDecoder(os.Stdin).Decode(&cases); err != nil {
		vlib.HarnessError("fresh-process child: cannot decode cases: %v", err)
	}
	resp := childResp{Fails: map[int]string{}}
	for i, raw := range cases {
		if f := vlib.Guard(func() *vlib.Failure { return j(raw) }); f != nil {
			resp.Fails[i] = f.Detail
		}
	}
	out, _ := json.Marshal(resp)
	os.Stdout.Write(append([]byte("FRESH-PROCESS-RESULT "), out...))
	os.Exit(0)
}

// inFreshProcess judges the cases, in order, in one freshly started process and returns the failures by position.
func inFreshProcess[K any](prop string, cases []K) map[int]string {
	in, err := json.Marshal(cases)
	if err != nil {
		vlib.HarnessError("fresh process: cannot serialise cases: %v", err)
	}
	cmd := exec.Command(os.Args[0], "-prop", prop)
	cmd.Env = append(os.Environ(), childEnv+"=1")
	cmd.Stdin = bytes.NewReader(in)
	var stderr bytes.Buffer
	cmd.Stderr = &stderr
	out, err := cmd.Output()
	_, res, ok := bytes.Cut(out, []byte("FRESH-PROCESS-RESULT "))
	if err != nil || !ok {
		vlib.HarnessError("fresh process for %s failed: %v: %s %s", prop, err, tailBytes(out, 400), tailBytes(stderr.Bytes(), 400))
	}
	var resp childResp
	if err := json.Unmarshal(res, &resp); err != nil {
		vlib.HarnessError("fresh process for %s: cannot decode result: %v", prop, err)
	}
	return resp.Fails
}

func tailBytes(b []byte, n int) string {
	if len(b) > n {
		b = b[len(b)-n:]
	}
	return string(b)
}

// afterNote words the history of a fresh-process witness.
func afterNote(n int, detail string) string {
	return fmt.Sprintf("in a freshly started process, after %d earlier validation(s) (listed in the witness, in order): %s", n, detail)
}
