// Command vcheck runs one property check against the repository it was compiled with (go build -overlay).
package main

import (
	"encoding/json"
	"os"
	"runtime/debug"
	"sort"

	"github.com/jub0bs/cors/internal/zzverif/vlib"
)

// A check explores its space, reports violations through the context and returns (level, rule).
type check func(c *vlib.Ctx) (level, rule string)

var registry = map[string]check{}

func main() {
	debug.SetGCPercent(800) // enumeration produces short-lived garbage only; fewer collections, better scaling
	c := vlib.NewCtx()
	f := registry[c.Prop]
	if f == nil {
		ids := make([]string, 0, len(registry))
		for id := range registry {
			ids = append(ids, id)
		}
		sort.Strings(ids)
		vlib.HarnessError("unknown property %q (have %v)", c.Prop, ids)
	}
	level, rule := f(c)
	os.Exit(c.Finish(level, rule))
}

// Checker couples a judge (runs the real code on one case and compares with the oracle) with replay-file
// handling: exploration, the five re-runs of a failing witness and --replay all go through the same judge.
type Checker[K any] struct {
	C     *vlib.Ctx
	Judge func(K) *vlib.Failure
	Test  func(K) string // text of a plain _test.go reproducing the case (may be nil)
}

// Try judges one case; it returns true if the case passed.
func (ck *Checker[K]) Try(k K) bool {
	ck.C.Evaluations.Add(1)
	ck.C.Quiesce.RLock()
	f := vlib.Guard(func() *vlib.Failure { return ck.Judge(k) })
	ck.C.Quiesce.RUnlock()
	if f == nil {
		return true
	}
	ck.Report(k, f)
	return false
}

// Report handles a failure found by a fast path: it is confirmed through Judge before it counts.
func (ck *Checker[K]) Report(k K, f *vlib.Failure) {
	txt := ""
	if ck.Test != nil {
		txt = ck.Test(k)
	}
	ck.C.Violation(k, f, func() *vlib.Failure { return vlib.Guard(func() *vlib.Failure { return ck.Judge(k) }) }, txt)
}

// Replay runs the witness of a replay file (if one was given) and reports whether it did.
func (ck *Checker[K]) Replay() bool {
	if ck.C.Replay == "" {
		return false
	}
	var k K
	if err := json.Unmarshal(ck.C.LoadReplay(), &k); err != nil {
		vlib.HarnessError("cannot decode witness: %v", err)
	}
	ck.C.States.Add(1)
	ck.C.Transitions.Add(1)
	ck.C.Sample(k)
	ck.Try(k)
	return true
}

const levelMC = "model_checking"
