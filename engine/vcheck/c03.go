package main

import (
	"encoding/json"
	"fmt"
	"net/http"
	"slices"
	"strconv"
	"strings"

	"github.com/jub0bs/cors"
	"github.com/jub0bs/cors/internal/zzverif/ref"
	"github.com/jub0bs/cors/internal/zzverif/vlib"
)

// C03 — CORS response headers are well-formed and never over-grant, for any request.

type c03Case struct {
	Cfg   CfgLit   `json:"config"`
	Debug bool     `json:"debug"`
	Req   vlib.Req `json:"request"`
	// Prev != nil: the middleware is created with Prev, serves Req once, is then reconfigured to Cfg and serves
	// Req again; the invariants are checked on the second response (state left behind by earlier calls)
	Prev *CfgLit `json:"previous_config,omitempty"`
	// FailingFirst (with Prev): the first request is served with debug off and asks for method DELETE and header x-zz
	// instead (under most configurations it passes the origin step and fails later); debug is set after Reconfigure
	FailingFirst bool `json:"first_request_fails_late,omitempty"`
	// Scribbled: before the request under test the middleware (same configuration) serves the request, a non-CORS
	// GET and one actual request per configured origin pattern with a handler that overwrites in place every header
	// slice it can reach
	Scribbled bool `json:"after_requests_served_by_a_scribbling_handler,omitempty"`
	// Mode 1: the handler is wrapped twice by the same middleware (m.Wrap(m.Wrap(h))); Mode 2: the response header
	// map already carries CORS headers and Vary from an outer layer (c03Outer) when the middleware runs - what the
	// middleware leaves exactly as the outer layer set it is the outer layer's business, everything else is judged
	Mode int `json:"mode,omitempty"`
	// Traffic > 0: the request under test is number Traffic of the long traffic sequence (suite.go), served after all
	// the earlier ones on the same middleware
	Traffic int `json:"traffic_position,omitempty"`
	// Route12: the middleware is brought up through construction route 12 (in-place edited Config resubmitted)
	Route12 bool `json:"route12,omitempty"`
}

var safelistedResponseHeaders = map[string]bool{"cache-control": true, "content-language": true, "content-length": true, "content-type": true, "expires": true, "last-modified": true, "pragma": true}

// expectedACEH renders the configured exposed headers as documented: "*" or the byte-lower-cased,
// non-safelisted names, sorted, joined by ",".
func expectedACEH(l CfgLit) string {
	var names []string
	for _, n := range l.ResponseHeaders {
		if n == "*" {
			return "*"
		}
		ln := strings.ToLower(n)
		if !safelistedResponseHeaders[ln] {
			names = append(names, ln)
		}
	}
	return strings.Join(ref.SortedUnique(names), ",")
}

func expectedACMA(l CfgLit) string {
	switch l.MaxAge {
	case 0:
		return ""
	case -1:
		return "0"
	}
	return strconv.Itoa(l.MaxAge)
}

func isAllowAll(l CfgLit) bool {
	for _, o := range l.Origins {
		if o == "*" {
			return true
		}
	}
	return false
}

// c03Invariants checks one response against the C03 sentence.
func c03Invariants(l CfgLit, req vlib.Req, h http.Header, status int) *vlib.Failure {
	originVals := req.Hdr["Origin"]
	acrmVals := req.Hdr["Access-Control-Request-Method"]
	isPreflight := req.Method == "OPTIONS" && len(originVals) > 0 && len(acrmVals) > 0
	allowAll := isAllowAll(l)
	acao := h["Access-Control-Allow-Origin"]
	acac := h["Access-Control-Allow-Credentials"]
	if len(acao) > 1 {
		return vlib.Failf("more than one Access-Control-Allow-Origin value: %q", acao)
	}
	originAllowed := false
	if len(originVals) > 0 {
		o := originVals[0]
		originAllowed = ref.LenientSerializedOrigin(o) && ref.DenotedByAny(l.Origins, o)
	}
	if len(acao) == 1 {
		switch {
		case acao[0] == "*":
			if !allowAll || l.Credentialed {
				return vlib.Failf("ACAO is * although the configuration is not an anonymous allow-all one")
			}
		default:
			if allowAll {
				return vlib.Failf("allow-all configuration echoed ACAO %q instead of *", acao[0])
			}
			if len(originVals) == 0 || acao[0] != originVals[0] {
				return vlib.Failf("ACAO %q is not the byte-exact first Origin value %q", acao[0], originVals)
			}
			if !originAllowed {
				return vlib.Failf("ACAO echoes %q, which is not a serialized origin denoted by any of %q", acao[0], l.Origins)
			}
		}
	}
	if len(acac) > 0 {
		if len(acac) != 1 || acac[0] != "true" {
			return vlib.Failf("Access-Control-Allow-Credentials is %q", acac)
		}
		if !l.Credentialed {
			return vlib.Failf("ACAC: true although credentialed access is not enabled")
		}
		if len(acao) != 1 || acao[0] == "*" {
			return vlib.Failf("ACAC: true without an echoed origin (ACAO=%q)", acao)
		}
	}
	if !allowAll && !originAllowed {
		for k := range h {
			if strings.HasPrefix(k, "Access-Control-Allow-") || strings.HasPrefix(k, "Access-Control-Expose-") || k == "Access-Control-Max-Age" {
				return vlib.Failf("request without an allowed origin (Origin=%q) got %s: %q", originVals, k, h[k])
			}
		}
	}
	for _, k := range []string{"Access-Control-Allow-Methods", "Access-Control-Allow-Headers", "Access-Control-Allow-Private-Network", "Access-Control-Max-Age"} {
		if _, ok := h[k]; ok && !isPreflight {
			return vlib.Failf("%s on a response to a request that is not a preflight", k)
		}
	}
	if v, ok := h["Access-Control-Expose-Headers"]; ok {
		if isPreflight {
			return vlib.Failf("Access-Control-Expose-Headers on a preflight response")
		}
		if len(v) != 1 || v[0] != expectedACEH(l) {
			return vlib.Failf("Access-Control-Expose-Headers is %q, configured rendering is %q", v, expectedACEH(l))
		}
	}
	if v, ok := h["Access-Control-Max-Age"]; ok {
		if len(v) != 1 || v[0] != expectedACMA(l) || expectedACMA(l) == "" {
			return vlib.Failf("Access-Control-Max-Age is %q, configured rendering is %q", v, expectedACMA(l))
		}
	}
	if v, ok := h["Access-Control-Allow-Private-Network"]; ok {
		if len(v) != 1 || v[0] != "true" || !(l.PNA || l.PNANoCORS) {
			return vlib.Failf("Access-Control-Allow-Private-Network is %q (PNA enabled: %t)", v, l.PNA || l.PNANoCORS)
		}
	}
	return nil
}

var c03Outer = map[string][]string{"Access-Control-Allow-Origin": {"https://outer.example"}, "Access-Control-Allow-Credentials": {"true"}, "Access-Control-Expose-Headers": {"x-outer"},
	"Access-Control-Allow-Methods": {"OUTER"}, "Vary": {"Origin"}}

// c03Serve serves req in the given mode and returns the headers to be judged and the status.
func c03Serve(h http.Handler, mode int, req vlib.Req, rec *vlib.Rec) (http.Header, int) {
	rec.Reset()
	if mode == 2 {
		for k, v := range c03Outer {
			rec.H[k] = append([]string(nil), v...)
		}
	}
	h.ServeHTTP(rec, req.HTTP())
	if mode != 2 {
		return rec.H, rec.Status
	}
	judged := http.Header{}
	for k, v := range rec.H {
		if o, ok := c03Outer[k]; ok && slices.Equal(o, v) {
			continue // untouched
		}
		judged[k] = v
	}
	return judged, rec.Status
}

func c03Traffic() []vlib.Req {
	return trafficSequence(300, "https://t%d.a.b", "https://t%d.xa.b")
}

func c03Judge(k c03Case) *vlib.Failure {
	first := k.Cfg
	if k.Prev != nil {
		first = *k.Prev
	}
	cfg0 := first.Config()
	m, err := cors.NewMiddleware(cfg0)
	if err != nil {
		return vlib.Failf("configuration of the C03 alphabet rejected: %v", err)
	}
	if k.Route12 {
		if m, err = buildVia(12, first, false); err != nil {
			return vlib.Failf("configuration of the C03 alphabet rejected through route 12: %v", err)
		}
	}
	scribbleConfig(&cfg0)
	scribbleConfig(m.Config())
	m.SetDebug(k.Debug && !k.FailingFirst)
	if k.Prev != nil {
		// the first request is served with a handler that overwrites in place every header slice it can reach
		firstReq := k.Req
		if k.FailingFirst {
			hdr := map[string][]string{}
			for hk, hv := range k.Req.Hdr {
				hdr[hk] = hv
			}
			hdr["Access-Control-Request-Method"], hdr["Access-Control-Request-Headers"] = []string{"DELETE"}, []string{"x-zz"}
			firstReq = vlib.Req{Method: k.Req.Method, Hdr: hdr}
		}
		m.Wrap(scribbler{}).ServeHTTP(vlib.NewRec(), firstReq.HTTP())
		cfg := k.Cfg.Config()
		if err := m.Reconfigure(&cfg); err != nil {
			return vlib.Failf("configuration of the C03 alphabet rejected by Reconfigure: %v", err)
		}
		scribbleConfig(&cfg)
		m.SetDebug(k.Debug)
	}
	if k.Scribbled {
		h := m.Wrap(scribbler{})
		h.ServeHTTP(vlib.NewRec(), k.Req.HTTP())
		h.ServeHTTP(vlib.NewRec(), vlib.Req{Method: "GET"}.HTTP())
		for _, p := range k.Cfg.Origins {
			o := strings.Replace(strings.Replace(p, "*.", "x.", 1), ":*", ":8", 1)
			if o == "*" {
				o = "https://any.example"
			}
			h.ServeHTTP(vlib.NewRec(), vlib.Req{Method: "GET", Hdr: map[string][]string{"Origin": {o}}}.HTTP())
			h.ServeHTTP(vlib.NewRec(), vlib.Req{Method: "OPTIONS", Hdr: map[string][]string{"Origin": {o}, "Access-Control-Request-Method": {"GET"}}}.HTTP())
		}
	}
	rec := vlib.NewRec()
	h := m.Wrap(http.HandlerFunc(func(http.ResponseWriter, *http.Request) {}))
	if k.Mode == 1 {
		h = m.Wrap(h)
	}
	if k.Traffic > 0 {
		for _, r := range c03Traffic()[:k.Traffic-1] {
			h.ServeHTTP(vlib.NewRec(), r.HTTP())
		}
	}
	hdrs, status := c03Serve(h, k.Mode, k.Req, rec)
	if rec.WroteN > 1 && k.Mode != 1 {
		return vlib.Failf("the middleware called WriteHeader %d times on one response", rec.WroteN)
	}
	return c03Invariants(k.Cfg, k.Req, hdrs, status)
}

func c03Test(k c03Case) string {
	return fmt.Sprintf(`package cors_test

import ("net/http"; "net/http/httptest"; "testing"; "github.com/jub0bs/cors")

func TestC03Replay(t *testing.T) {
	m, err := cors.NewMiddleware(%s)
	if err != nil { t.Fatal(err) }
	m.SetDebug(%t)
	req := httptest.NewRequest(%q, "/", nil); req.Header = %#v
	rec := httptest.NewRecorder()
	m.Wrap(http.HandlerFunc(func(http.ResponseWriter, *http.Request) {})).ServeHTTP(rec, req)
	t.Logf("%%d %%v", rec.Code, rec.Header()) // inspect: ACAO must be absent, "*" (anonymous allow-all only) or the byte-exact Origin of an allowed serialized origin
}
`, k.Cfg.GoLiteral(), k.Debug, k.Req.Method, http.Header(k.Req.Hdr))
}

// c03SpliceBases: hosts that share suffixes at several depths (listed so that radix-tree nodes that already have
// children get split).
var c03SpliceBases = []string{"example.com", "api.example.com", "sample.com", "cat", "concat", "bat", "a.cat", "xample.com", "pi.example.com"}

func c03SpliceHosts(prefix string) []string {
	out := make([]string, len(c03SpliceBases))
	for i, h := range c03SpliceBases {
		out[i] = prefix + h
	}
	return out
}

func c03Configs() []CfgLit {
	disc := []string{"https://a.b", "https://*.a.b", "https://b.a:*", "http://1.2.3.4", "http://[::1]", "ab://c", c01Scheme64 + "://" + c01Host253 + ".:*",
		"http://a.b:8100", "ionic://a.b", "capacitor://a.b:81", "coap+tcp://*.a.b:8", "ab://c:18", "https://*.c.d.", "https://e.f.", "https://*.g.h.:*"}
	return []CfgLit{
		{Origins: []string{"*"}, ResponseHeaders: []string{"X-R", "x-q"}, MaxAge: 30, Methods: []string{"PUT"}, RequestHeaders: []string{"X-A"}},
		{Origins: disc, ResponseHeaders: []string{"X-R", "Content-Type", "x-q"}, MaxAge: -1, Methods: []string{"PUT"}, RequestHeaders: []string{"X-A"}, TolPSL: true},
		{Origins: disc, Credentialed: true, ResponseHeaders: []string{"X-R"}, MaxAge: 30, Methods: []string{"PUT"}, RequestHeaders: []string{"X-A"}, TolInsecure: true, TolPSL: true},
		{Origins: disc, PNA: true, ResponseHeaders: []string{"*"}, Methods: []string{"*"}, RequestHeaders: []string{"*"}, TolInsecure: true, TolPSL: true},
		{Origins: []string{"https://a.b", "*", "https://*.a.b"}, ResponseHeaders: []string{"X-R"}, Methods: []string{"PUT"}, RequestHeaders: []string{"X-A"}},
		{Origins: append(append([]string{}, richOrigins...), "https://a.b"), Credentialed: true, Methods: richMethods, RequestHeaders: richReqHdrs, ResponseHeaders: richResHdrs, MaxAge: 600, Status: 201, TolInsecure: true, TolPSL: true},
		{Origins: c03SpliceHosts("https://"), Credentialed: true, ResponseHeaders: []string{"X-R"}, Methods: []string{"PUT"}, RequestHeaders: []string{"X-A"}},
		{Origins: disc, Credentialed: true, PNANoCORS: true, ResponseHeaders: []string{"X-R"}, MaxAge: 30, Methods: []string{"*"}, RequestHeaders: []string{"*"}, TolInsecure: true, TolPSL: true, Status: 200},
		// `*` among the exposed headers next to names that sort before it
		{Origins: disc, ResponseHeaders: []string{"!x-foo", "*", "$cost", "x-bar"}, Methods: []string{"PUT"}, RequestHeaders: []string{"X-A"}, TolPSL: true},
		// a pattern with a port wildcard listed first; one and the same name, in the same spelling, among the allowed
		// request headers, the exposed response headers and the methods
		{Origins: []string{"https://b.a:*", "http://[::1]:*", "https://*.a.b", "https://a.b"}, Credentialed: true, ResponseHeaders: []string{"X-Same", "X-R"}, MaxAge: 30, Methods: []string{"X-Same", "PUT"}, RequestHeaders: []string{"X-Same", "X-A"}, TolInsecure: true, TolPSL: true},
	}
}

func checkC03(c *vlib.Ctx) (string, string) {
	ck := &Checker[c03Case]{C: c, Judge: c03Judge, Test: c03Test}
	c.RegisterMatcher("bracketed-host-without-colon", func(raw []byte) bool {
		var k c03Case
		if json.Unmarshal(raw, &k) != nil {
			return false
		}
		o := k.Req.Hdr["Origin"]
		return len(o) > 0 && ref.BracketedHostWithoutColon(o[0])
	})
	rule := "configurations x debug x requests: (A) every Origin value of the regular family P.Sigma^{<=n} plus structured classes x 12 request shapes, (B) representative Origin values x full product of method x Origin list shape x ACRM x ACRH x ACRPN; every response checked against the C03 sentence; non-trivial = distinct request that obtained an Access-Control-Allow-Origin header"
	if ck.Replay() {
		return levelMC, rule
	}
	cfgs := c03Configs()
	for _, l := range c03Configs() {
		if ml := minimalFlags(l); ml.TolPSL != l.TolPSL || ml.TolInsecure != l.TolInsecure {
			cfgs = append(cfgs, ml) // the same configuration without the DangerouslyTolerate* switches it does not need
		}
	}
	type builtC03 struct {
		lit CfgLit
		h   [2]http.Handler
		hw  [2]http.Handler // wrapped twice
	}
	var bs []builtC03
	for _, l := range cfgs {
		var b builtC03
		b.lit = l
		for d := 0; d < 2; d++ {
			cfg0 := l.Config()
			m, err := cors.NewMiddleware(cfg0)
			if err == nil && len(bs)%2 == 0 {
				// every other configuration reaches the middleware the long way: one Config value that first held
				// placeholders, is edited in place and resubmitted (route 12, see suite.go)
				m, err = buildVia(12, l, false)
			}
			if err != nil {
				ck.Report(c03Case{Cfg: l}, vlib.Failf("configuration of the C03 alphabet rejected: %v", err))
				return levelMC, rule
			}
			scribbleConfig(&cfg0)
			scribbleConfig(m.Config())
			m.SetDebug(d == 1)
			b.h[d] = m.Wrap(http.HandlerFunc(func(http.ResponseWriter, *http.Request) {}))
			b.hw[d] = m.Wrap(b.h[d])
		}
		bs = append(bs, b)
	}
	try := func(rec *vlib.Rec, req vlib.Req) {
		for bi := range bs {
			for d := 0; d < 2; d++ {
				rec.Reset()
				bs[bi].h[d].ServeHTTP(rec, req.HTTP())
				if _, ok := rec.H["Access-Control-Allow-Origin"]; ok && d == 0 {
					c.Nontrivial.Add(1)
				}
				if f := c03Invariants(bs[bi].lit, req, rec.H, rec.Status); f != nil {
					k := c03Case{Cfg: bs[bi].lit, Debug: d == 1, Req: req, Route12: bi%2 == 0}
					if jf := vlib.Guard(func() *vlib.Failure { return c03Judge(k) }); jf != nil {
						ck.Report(k, jf)
					} else {
						vlib.HarnessError("fast path and judge disagree on %+v: %s", k, f.Detail)
					}
				}
			}
		}
		c.Evaluations.Add(int64(2 * len(bs)))
		c.Transitions.Add(int64(2 * len(bs)))
	}
	allowed := "https://a.b"
	// (A) origin-focused
	prefixes := []string{"https://x.c.d", "https://x.c.d.", "https://e.f", "https://x.g.h:", "https://x.g.h.:", "http://a.b", "http://a.b:810", "https://a.b:810", "ionic://a.b", "capacitor://a.b:8", "capacitor://a.b", "coap+tcp://x.a.b:", "ab://c:1", "https://api-v2.example.co.uk", "https://xn--bcher-kva.example:4915", "app+v1.0://host-1.internal:1000", "chrome-extension://abcdefghijklmnopabcdefghijklmnop", "https://x.host-1.internal", "", "https://", "https://a.b", "https://x.a.b", "https://a.b:", "https://b.a:", "http://[::1]", "http://[", "http://1.2.3.4", "ab://c", "https://[a.b", "https://[x.a.b]"}
	sigma := []string{"a", "b", "x", ".", ":", "/", "[", "]", "0", "1", "8", "A", "*", "@", "-", " ", "\x00", "\xc3"}
	n := vlib.Pick(c, 3, 4)
	w := vlib.NewWords(sigma, n)
	shapes := func(v string) []vlib.Req {
		var out []vlib.Req
		for _, lst := range [][]string{{v}, {v, allowed}, {allowed, v}} {
			for _, m := range []string{"GET", "OPTIONS"} {
				out = append(out, vlib.Req{Method: m, Hdr: map[string][]string{"Origin": lst}})
				out = append(out, vlib.Req{Method: m, Hdr: map[string][]string{"Origin": lst, "Access-Control-Request-Method": {"PUT"}, "Access-Control-Request-Headers": {"x-a"}}})
			}
		}
		return out
	}
	total := int64(len(prefixes)) * w.Count()
	c.ParRange(total, 64, "C03 origin family", func(i int64) {
		v := prefixes[i/w.Count()] + w.At(i%w.Count())
		rec := vlib.NewRec()
		for _, r := range shapes(v) {
			try(rec, r)
		}
		c.SampleAt(i+1, func() any { return c03Case{Cfg: cfgs[1], Req: shapes(v)[1]} })
	})
	c.States.Add(total)
	// (A') junk in front of an allowed suffix: P2 . Sigma^{<=n} . S2 (what a `*.` pattern must not swallow)
	p2 := []string{"https://", "https://x", "https://x.", "http://", "https://b.a"}
	s2 := []string{".a.b", "a.b", ".a.b:8", "x.a.b", ":8080", "1.2.3.4", "[::1]"}
	total2 := int64(len(p2)*len(s2)) * w.Count()
	c.ParRange(total2, 64, "C03 suffix family", func(i int64) {
		j := i / w.Count()
		v := p2[j/int64(len(s2))] + w.At(i%w.Count()) + s2[j%int64(len(s2))]
		rec := vlib.NewRec()
		for _, r := range shapes(v)[:4] {
			try(rec, r)
		}
	})
	c.States.Add(total2)
	// structured classes
	long := func(nbytes int) string {
		h := c01Scheme64 + "://" + c01Host253 + ".:65535" // 327 bytes
		if nbytes <= len(h) {
			return h[:nbytes]
		}
		return h + strings.Repeat("5", nbytes-len(h))
	}
	structured := []string{"null", "https://user@a.b", "https://user:pw@a.b", "https://a.b/", "https://a.b/p", "https://a.b?q", "https://a.b#f", " https://a.b", "https://a.b ", "https://a.b\t",
		"https://b.a:123456", "https://b.a:0443", "https://b.a:00", "https://b.a:65536", "https://b.a:65535", "https://b.a:0", "https://b.a:", "HTTPS://a.b", "https://A.b", "https://x.A.b", "https://x.a.b.", "https://.a.b", "https://x..a.b", "https://-.a.b",
		"http://[::1]:80", "http://[::1]:", "http://[::1", "http://[0:0:0:0:0:0:0:1]", "http://[::0001]", "http://[::1%25eth0]", "http://[::ffff:1.2.3.4]", "http://1.2.3.4:8080", "http://01.2.3.4", "http://1.2.3", "http://[1.2.3.4]", "http://[a.b]", "https://[a.b]:443",
		"ab://c", "ab://c:1", "a://c", "abc://c", "ab:c", "ab:/c", "ab:///c", "file://", "file:///x",
		long(325), long(326), long(327), long(328), c01Scheme64 + "://" + c01Host253 + ".", c01Scheme64 + "://" + c01Host253 + ".:1", c01Scheme64 + "s://" + c01Host253 + ".:65535",
		"https://" + strings.Repeat("a", 1<<20), strings.Repeat("https://a.b,", 1<<16), "https://a.b, https://a.b", "https://a.b,https://x.a.b", "*", "", "https://xn--a.b", "https://x_y.a.b", "https://b.a:8080", "https://b.a",
		// what the Config value of construction route 12 held before it was edited in place and resubmitted
		"https://placeholder0.example", "https://placeholder1.example", "https://placeholder2.example", "https://placeholder3.example"}
	// the text of every configured pattern, presented as an Origin value (a pattern is not an origin unless it is free
	// of wildcards)
	for _, l := range cfgs {
		for _, p := range l.Origins {
			if len(p) < 400 && !slices.Contains(structured, p) {
				structured = append(structured, p)
			}
		}
	}
	recS := vlib.NewRec()
	for _, v := range structured {
		for _, r := range shapes(v) {
			try(recS, r)
		}
	}
	c.States.Add(int64(len(structured)))
	// every byte value inserted at, and substituted into, every position of origins that the configurations allow
	// (byte-class tables have 256 entries; the regular families above reach 18 of them)
	var byteVals []string
	for _, base := range []string{"https://a.b", "https://x.a.b", "https://b.a:8080", "http://1.2.3.4:8", "http://[::1]:80", "ab://c:1", "https://x.g.h:8", "https://x.c.d."} {
		for pos := 0; pos <= len(base); pos++ {
			for b := 0; b < 256; b++ {
				byteVals = append(byteVals, base[:pos]+string([]byte{byte(b)})+base[pos:], base[:pos]+string([]byte{byte(b)})+base[min(pos+1, len(base)):])
			}
		}
	}
	c.ParRange(int64(len(byteVals)), 256, "C03 single-byte variations", func(i int64) {
		rec := vlib.NewRec()
		for _, r := range shapes(byteVals[i])[:2] {
			try(rec, r)
		}
	})
	c.States.Add(int64(len(byteVals)))
	c.Set("single_byte_variations", len(byteVals))
	// every splice of a prefix of one host of the suffix-sharing configuration with a suffix of another
	seenSplice := map[string]bool{}
	var splices []string
	for _, h1 := range c03SpliceBases {
		for _, h2 := range c03SpliceBases {
			for i := 0; i <= len(h1); i++ {
				for j := 0; j <= len(h2); j++ {
					if v := h1[:i] + h2[j:]; v != "" && !seenSplice[v] {
						seenSplice[v] = true
						splices = append(splices, "https://"+v)
					}
				}
			}
		}
	}
	c.ParRange(int64(len(splices)), 256, "C03 spliced hosts", func(i int64) {
		rec := vlib.NewRec()
		for _, r := range shapes(splices[i])[:2] {
			try(rec, r)
		}
	})
	c.States.Add(int64(len(splices)))
	c.Set("spliced_hosts", len(splices))
	// long traffic on one middleware per configuration and debug mode (300 distinct allowed origins, 300 near
	// misses, each coming back at several distances): every answer satisfies the same invariants
	traffic := c03Traffic()
	c.ParRange(int64(2*len(bs)), 1, "C03 long traffic", func(i int64) {
		l, d := bs[i/2].lit, int(i%2)
		cfg0 := l.Config()
		m, err := cors.NewMiddleware(cfg0)
		if err != nil {
			return
		}
		m.SetDebug(d == 1)
		h := m.Wrap(http.HandlerFunc(func(http.ResponseWriter, *http.Request) {}))
		rec := vlib.NewRec()
		for ti, r := range traffic {
			rec.Reset()
			h.ServeHTTP(rec, r.HTTP())
			c.Transitions.Add(1)
			if f := c03Invariants(l, r, rec.H, rec.Status); f != nil {
				k := c03Case{Cfg: l, Debug: d == 1, Req: r, Traffic: ti + 1}
				if jf := vlib.Guard(func() *vlib.Failure { return c03Judge(k) }); jf != nil {
					ck.Report(k, jf)
				} else {
					vlib.HarnessError("traffic pass and judge disagree on %+v: %s", k, f.Detail)
				}
				return
			}
		}
	})
	c.Set("traffic_requests_per_middleware", len(traffic))
	// dictionary pass: requests of every shape with one more header that browsers, proxies or frameworks really send
	// (the invariants do not depend on it)
	var dictReqs []vlib.Req
	for _, v := range []string{"https://a.b", "https://x.a.b", "https://b.a:8080", "https://evil.b", "http://1.2.3.4", "null", "https://api.ample.com"} {
		for _, r := range shapes(v)[:4] {
			for _, e := range requestHeaderDictionary {
				dictReqs = append(dictReqs, withDictionaryHeader(r, e))
			}
		}
	}
	c.ParRange(int64(len(dictReqs)), 64, "C03 dictionary headers", func(i int64) {
		try(vlib.NewRec(), dictReqs[i])
	})
	c.States.Add(int64(len(dictReqs)))
	c.Set("dictionary_requests", len(dictReqs))
	// (B) request-shape-focused
	reps := []string{"https://a.b", "https://x.a.b", "https://b.a:8080", "http://1.2.3.4", "http://[::1]", "ab://c", "https://xa.b", "https://a.b:8443", "http://a.b", "https://a.b.evil", "null", "https://a.b/", "https://[a.b]", "", "garbage", "https://A.B"}
	methods := []string{"GET", "OPTIONS", "PUT", "get", "options", "HEAD"}
	acrms := [][]string{nil, {}, {""}, {"PUT"}, {"put"}, {"GET"}, {"@@"}, {"PUT", "DELETE"}, {"DELETE", "PUT"}}
	acrhs := [][]string{nil, {}, {"x-a"}, {"x-b"}, {"x-a", "x-a"}, {"x-a", ""}, {"X-A"}, {"\x00,"}, {"x-a,authorization"}}
	acrpns := [][]string{nil, {"true"}, {"TRUE"}, {"true", "false"}, {"false", "true"}, {}}
	type shape struct{ kind int }
	prod := vlib.Product{Sizes: []int{len(reps), 6, len(methods), len(acrms), len(acrhs), len(acrpns)}}
	c.ParRange(prod.Count(), 64, "C03 request shapes", func(i int64) {
		var tmp [8]int
		ix := prod.At(i, tmp[:0])
		v := reps[ix[0]]
		hdr := map[string][]string{}
		switch ix[1] {
		case 0: // absent
		case 1:
			hdr["Origin"] = []string{}
		case 2:
			hdr["Origin"] = []string{v}
		case 3:
			hdr["Origin"] = []string{v, allowed}
		case 4:
			hdr["Origin"] = []string{allowed, v}
		case 5:
			hdr["Origin"] = []string{v, v}
		}
		if a := acrms[ix[3]]; a != nil {
			hdr["Access-Control-Request-Method"] = a
		}
		if a := acrhs[ix[4]]; a != nil {
			hdr["Access-Control-Request-Headers"] = a
		}
		if a := acrpns[ix[5]]; a != nil {
			hdr["Access-Control-Request-Private-Network"] = a
		}
		rec := vlib.NewRec()
		req := vlib.Req{Method: methods[ix[2]], Hdr: hdr}
		try(rec, req)
		// the same request through a handler wrapped twice, and behind an outer layer that pre-set CORS headers
		for bi := range bs {
			for d := 0; d < 2; d++ {
				for mode := 1; mode <= 2; mode++ {
					h := bs[bi].h[d]
					if mode == 1 {
						h = bs[bi].hw[d]
					}
					hdrs, status := c03Serve(h, mode, req, rec)
					if f := c03Invariants(bs[bi].lit, req, hdrs, status); f != nil {
						k := c03Case{Cfg: bs[bi].lit, Debug: d == 1, Req: req, Mode: mode}
						if jf := vlib.Guard(func() *vlib.Failure { return c03Judge(k) }); jf != nil {
							ck.Report(k, jf)
						} else {
							vlib.HarnessError("fast path and judge disagree on %+v: %s", k, f.Detail)
						}
					}
				}
			}
		}
		c.Evaluations.Add(int64(4 * len(bs)))
		c.Transitions.Add(int64(4 * len(bs)))
	})
	c.States.Add(prod.Count())
	// (C) history: previous configuration (a broad credentialed one, and each configuration of the alphabet),
	// one request, Reconfigure, the same request again
	broad := CfgLit{Origins: []string{"https://*.b:*", "http://*.b:*", "https://*.a:*", "https://a.b", "https://b:*", "http://1.2.3.4:*", "http://[::1]:*", "ab://*.c:*", "ab://c"}, Credentialed: true, TolInsecure: true, TolPSL: true, Methods: []string{"*"}, RequestHeaders: []string{"*"}, ResponseHeaders: []string{"X-Broad"}, MaxAge: 77, PNA: true}
	prevs := append([]CfgLit{broad}, cfgs...)
	var histReqs []vlib.Req
	for _, v := range append(append([]string{}, structured...), "https://xa.b", "https://x.a.b", "https://y.x.a.b:8", "https://evil.b", "https://b.a:9", "http://x.b", "http://1.2.3.4:9", "http://[::1]:8", "ab://x.c", "https://a.b:8443", "https://a.b") {
		if len(v) > 4096 {
			continue
		}
		histReqs = append(histReqs, shapes(v)[:4]...)
	}
	hp := vlib.Product{Sizes: []int{len(prevs), len(cfgs), 2, len(histReqs)}}
	c.ParRange(hp.Count(), 64, "C03 history", func(i int64) {
		var tmp [4]int
		ix := hp.At(i, tmp[:0])
		prev := prevs[ix[0]]
		k := c03Case{Cfg: cfgs[ix[1]], Debug: ix[2] == 1, Req: histReqs[ix[3]], Prev: &prev}
		c.Transitions.Add(3)
		ck.Try(k)
		if _, pre := k.Req.Hdr["Access-Control-Request-Method"]; pre && k.Req.Method == "OPTIONS" {
			k.FailingFirst = true
			c.Transitions.Add(3)
			ck.Try(k)
		}
	})
	c.States.Add(hp.Count())
	c.Set("history_sequences", hp.Count())
	// (D) the same configuration after requests served by a handler that scribbles over the header slices
	sp := vlib.Product{Sizes: []int{len(cfgs), 2, len(histReqs)}}
	c.ParRange(sp.Count(), 64, "C03 scribbled", func(i int64) {
		var tmp [3]int
		ix := sp.At(i, tmp[:0])
		c.Transitions.Add(int64(3 + 2*len(cfgs[ix[0]].Origins)))
		ck.Try(c03Case{Cfg: cfgs[ix[0]], Debug: ix[1] == 1, Req: histReqs[ix[2]], Scribbled: true})
	})
	c.States.Add(sp.Count())
	c.Set("scribbled_history_sequences", sp.Count())
	c.Set("origin_family", map[string]any{"prefixes": prefixes, "sigma": sigma, "max_suffix_len": n, "values": total, "structured_values": len(structured), "suffix_family_prefixes": p2, "suffix_family_suffixes": s2, "suffix_family_values": total2})
	c.Set("request_shape_product", prod.Sizes)
	c.Set("configurations", len(cfgs))
	return levelMC, rule
}

func init() { registry["C03"] = checkC03 }
