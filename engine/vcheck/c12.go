package main

import (
	"fmt"
	"net/http"
	"slices"
	"strings"
	"sync"

	"github.com/jub0bs/cors"
	"github.com/jub0bs/cors/internal/zzverif/vlib"
)

// C12 — behaviour is immune to caller-side mutation and to request history.
// Stateless enumeration of operation sequences on five middlewares alive at once; after every step every
// middleware must answer a fixed probe suite exactly as before any adversarial activity, canary-free.

const canary = "CANARY-c12"

type c12Case struct {
	Ops []string `json:"ops"`
	// Isolated: every probe is served on a world of its own, as the first request after the history (probes are
	// requests too: one that repairs what the history damaged must not hide the damage from the next one)
	Isolated bool `json:"isolated_probes,omitempty"`
}

var (
	c12A = CfgLit{Origins: []string{"https://a.example", "https://*.a.example", "https://x.a.example:9", "https://*.b.a.example:*", "http://x.a.example"}, TolInsecure: true, Methods: []string{"PUT", "PATCH"}, RequestHeaders: []string{"X-A", "X-B"}, ResponseHeaders: []string{"X-R", "X-S"}, MaxAge: 30}
	c12B = CfgLit{Origins: []string{"*"}, Methods: []string{"*"}, RequestHeaders: []string{"*", "Authorization"}, ResponseHeaders: []string{"*"}, MaxAge: -1, Status: 200}
	c12D = CfgLit{Origins: []string{"https://e.example"}, Credentialed: true, Methods: []string{"*"}, RequestHeaders: []string{"*", "Authorization"}, MaxAge: -1}
	c12E = CfgLit{Origins: []string{"*"}, Methods: []string{"*"}, RequestHeaders: []string{"*"}, ResponseHeaders: []string{"*"}}
	c12C = CfgLit{Origins: []string{"http://c.example:8080", "https://d.example"}, Credentialed: true, TolInsecure: true, Methods: []string{"PUT", "DELETE"}, RequestHeaders: []string{"X-A", "X-C"}, ResponseHeaders: []string{"X-T"}, PNA: true}
)

func scribbleSlice(s []string) {
	s = s[:cap(s)]
	for i := range s {
		s[i] = canary
	}
}

func scribbleHeader(h http.Header) {
	for _, v := range h {
		scribbleSlice(v)
	}
}

// scribbleConfig overwrites every element (up to capacity) of every list of c with a value that would mean
// something if the middleware still looked at the caller's slices: an attacker's origin, method and header names.
func scribbleConfig(c *cors.Config) {
	if c == nil {
		return
	}
	fill := func(s []string, v string) {
		s = s[:cap(s)]
		for i := range s {
			s[i] = v
		}
	}
	fill(c.Origins, evilOrigin)
	fill(c.Methods, "EVIL")
	fill(c.RequestHeaders, "x-evil")
	fill(c.ResponseHeaders, "x-evil-r")
	// the scalar fields belong to the caller just as much (Reconfigure receives a pointer to them)
	c.Credentialed = !c.Credentialed
	c.MaxAgeInSeconds = 4242
	c.PreflightSuccessStatus = 222
	c.PrivateNetworkAccess = !c.PrivateNetworkAccess
	c.PrivateNetworkAccessInNoCORSModeOnly = !c.PrivateNetworkAccessInNoCORSModeOnly
	c.DangerouslyTolerateInsecureOrigins = !c.DangerouslyTolerateInsecureOrigins
	c.DangerouslyTolerateSubdomainsOfPublicSuffixes = !c.DangerouslyTolerateSubdomainsOfPublicSuffixes
}

const evilOrigin = "https://evil.example"

// c12Requests: the kinds of request the operations serve.
func c12Requests() []vlib.Req {
	return []vlib.Req{
		{Method: "GET"},
		{Method: "OPTIONS"},
		{Method: "GET", Hdr: map[string][]string{"Origin": {"https://a.example"}}},
		{Method: "OPTIONS", Hdr: map[string][]string{"Origin": {"http://c.example:8080"}}},
		{Method: "GET", Hdr: map[string][]string{"Origin": {"https://denied.example"}}},
		{Method: "OPTIONS", Hdr: map[string][]string{"Origin": {"https://a.example"}, "Access-Control-Request-Method": {"PUT"}, "Access-Control-Request-Headers": {"x-a,x-b"}}},
		{Method: "OPTIONS", Hdr: map[string][]string{"Origin": {"https://x.a.example:9"}, "Access-Control-Request-Method": {"DELETE"}, "Access-Control-Request-Headers": {"x-z"}, "Access-Control-Request-Private-Network": {"true"}}},
		{Method: "POST", Hdr: map[string][]string{"Origin": {"https://d.example", "https://a.example"}, "X-Other": {"1", "2"}}},
	}
}

// c12Probes: the fixed probe suite.
func c12Probes() []vlib.Req {
	p := c12Requests()
	p = append(p,
		vlib.Req{Method: "OPTIONS", Hdr: map[string][]string{"Origin": {"https://d.example"}, "Access-Control-Request-Method": {"PATCH"}, "Access-Control-Request-Headers": {"authorization", "x-b"}}},
		vlib.Req{Method: "OPTIONS", Hdr: map[string][]string{"Origin": {"https://a.example"}, "Access-Control-Request-Method": {"GET"}, "Access-Control-Request-Headers": {"x-b,x-a"}}},
		vlib.Req{Method: "GET", Hdr: map[string][]string{"Origin": {"https://x.a.example"}}},
		vlib.Req{Method: "OPTIONS", Hdr: map[string][]string{"Origin": {"http://c.example:8080"}, "Access-Control-Request-Method": {"GET"}, "Access-Control-Request-Private-Network": {"true"}}},
		// what a scribbled Config would grant if it were still consulted
		vlib.Req{Method: "GET", Hdr: map[string][]string{"Origin": {evilOrigin}}},
		vlib.Req{Method: "OPTIONS", Hdr: map[string][]string{"Origin": {evilOrigin}, "Access-Control-Request-Method": {"PUT"}}},
		vlib.Req{Method: "OPTIONS", Hdr: map[string][]string{"Origin": {"https://a.example"}, "Access-Control-Request-Method": {"EVIL"}}},
		vlib.Req{Method: "OPTIONS", Hdr: map[string][]string{"Origin": {"https://a.example"}, "Access-Control-Request-Method": {"PUT"}, "Access-Control-Request-Headers": {"x-evil"}}},
		vlib.Req{Method: "OPTIONS", Hdr: map[string][]string{"Origin": {"https://d.example"}, "Access-Control-Request-Method": {"EVIL"}, "Access-Control-Request-Headers": {"x-evil"}}},
		vlib.Req{Method: "OPTIONS", Hdr: map[string][]string{"Origin": {"https://e.example"}, "Access-Control-Request-Method": {"PURGE"}, "Access-Control-Request-Headers": {"authorization,x-q"}}},
	)
	// the value the scribbling handler writes into every header slice it can reach, sent back as a request value
	p = append(p,
		vlib.Req{Method: "GET", Hdr: map[string][]string{"Origin": {canary}}},
		vlib.Req{Method: "OPTIONS", Hdr: map[string][]string{"Origin": {canary}, "Access-Control-Request-Method": {"PUT"}}},
		vlib.Req{Method: "OPTIONS", Hdr: map[string][]string{"Origin": {"https://a.example"}, "Access-Control-Request-Method": {canary}, "Access-Control-Request-Headers": {canary}}},
		vlib.Req{Method: "OPTIONS", Hdr: map[string][]string{"Origin": {"https://d.example"}, "Access-Control-Request-Method": {"PUT"}, "Access-Control-Request-Headers": {"x-a", canary}, "Access-Control-Request-Private-Network": {canary}}},
	)
	// variations of every served request: the same request with one more (disallowed) ACRH field line, with the
	// first line kept and a disallowed second one, with a near-miss origin / method, and with ACRPN toggled
	for _, r := range c12Requests() {
		if len(r.Hdr["Origin"]) == 0 {
			continue
		}
		mut := func(f func(h map[string][]string)) {
			h := map[string][]string{}
			for k, v := range r.Hdr {
				h[k] = append([]string(nil), v...)
			}
			f(h)
			p = append(p, vlib.Req{Method: r.Method, Hdr: h})
		}
		mut(func(h map[string][]string) { h["Origin"] = []string{h["Origin"][0] + ".evil.example"} })
		mut(func(h map[string][]string) {
			h["Origin"] = []string{"x" + h["Origin"][0][len("https://"):]}
			h["Origin"][0] = "https://" + h["Origin"][0]
		})
		if l, ok := r.Hdr["Access-Control-Request-Headers"]; ok {
			mut(func(h map[string][]string) {
				h["Access-Control-Request-Headers"] = append(append([]string{}, l...), "x-evil")
			})
			mut(func(h map[string][]string) { h["Access-Control-Request-Headers"] = []string{l[0], "x-evil,x-zz"} })
			mut(func(h map[string][]string) { h["Access-Control-Request-Headers"] = []string{l[0] + ",x-zz"} })
			mut(func(h map[string][]string) { h["Access-Control-Request-Method"] = []string{"EVIL"} })
			mut(func(h map[string][]string) {
				if _, ok := h["Access-Control-Request-Private-Network"]; ok {
					delete(h, "Access-Control-Request-Private-Network")
				} else {
					h["Access-Control-Request-Private-Network"] = []string{"true"}
				}
			})
		}
	}
	return p
}

const c12N = 5

type c12World struct {
	m      [c12N]*cors.Middleware
	inputs [c12N]cors.Config // the values passed to NewMiddleware (slices shared with the caller)
	// kept: one more Config value per middleware, equal to its configuration, that the caller keeps, never edits and
	// hands to Reconfigure again and again (first when the world is built)
	kept [c12N]cors.Config
	lits [c12N]CfgLit
}

func c12NewWorld() (*c12World, error) {
	w := &c12World{}
	w.lits = [c12N]CfgLit{c12A, c12B, c12C, c12D, c12E}
	for _, i := range []int{0, 1, 3, 4} {
		w.inputs[i] = w.lits[i].Config()
		m, err := cors.NewMiddleware(w.inputs[i])
		if err != nil {
			return nil, err
		}
		w.m[i] = m
	}
	// the third is created from C and then reconfigured from the first one's Config() and back, so that
	// Config()-derived values are in play, and runs with debug on
	w.inputs[2] = w.lits[2].Config()
	m3, err := cors.NewMiddleware(*w.m[0].Config())
	if err != nil {
		return nil, err
	}
	if err := m3.Reconfigure(&w.inputs[2]); err != nil {
		return nil, err
	}
	m3.SetDebug(true)
	w.m[2] = m3
	w.m[1].SetDebug(true)
	for i := range w.m {
		w.kept[i] = w.lits[i].Config()
		if err := w.m[i].Reconfigure(&w.kept[i]); err != nil {
			return nil, err
		}
	}
	return w, nil
}

func (w *c12World) probe() []string {
	var out []string
	for i := range w.m {
		out = append(out, observe(w.m[i], c12Probes())...)
	}
	return out
}

// observeBehindOuter serves the probes with a response header map in which an outer layer has put one and the same
// slice objects every time (as a layer with constant values may do): the middleware may append to Vary but must not
// write into slices it was handed. It returns the signatures and what became of the outer layer's slices.
func observeBehindOuter(m *cors.Middleware, probes []vlib.Req, vary, other []string) []string {
	inner := &vlib.Noop{}
	h := m.Wrap(inner)
	out := make([]string, len(probes))
	for i, p := range probes {
		rec := vlib.NewRec()
		rec.H["Vary"], rec.H["X-Outer"] = vary, other
		h.ServeHTTP(rec, p.HTTP())
		out[i] = fmt.Sprintf("%d|%v", rec.Status, rec.H)
	}
	return out
}

var (
	c12OuterOnce     sync.Once
	c12OuterPristine []string
)

// c12OuterBaseline: every probe behind fresh outer slices on a fresh world.
func c12OuterBaseline() []string {
	c12OuterOnce.Do(func() {
		probes := c12Probes()
		for mi := 0; mi < c12N; mi++ {
			for _, p := range probes {
				w, err := c12NewWorld()
				if err != nil {
					return
				}
				c12OuterPristine = append(c12OuterPristine, observeBehindOuter(w.m[mi], []vlib.Req{p}, []string{"Accept-Encoding"}, []string{"1"})...)
			}
		}
	})
	return c12OuterPristine
}

type scribbler struct{}

func (scribbler) ServeHTTP(w http.ResponseWriter, r *http.Request) {
	scribbleHeader(w.Header())
	scribbleHeader(r.Header)
}

func c12Ops() []string {
	var ops []string
	for mi := 0; mi < c12N; mi++ {
		for ri := range c12Requests() {
			for _, h := range []string{"noop", "scribble", "scribble-preset"} {
				ops = append(ops, fmt.Sprintf("serve:m%d:r%d:%s", mi, ri, h))
			}
		}
		ops = append(ops, fmt.Sprintf("scribble-input:m%d", mi), fmt.Sprintf("config-scribble:m%d", mi), fmt.Sprintf("reconfigure-scribble:m%d", mi), fmt.Sprintf("roundtrip-scribble:m%d", mi),
			fmt.Sprintf("edit-resubmit:m%d", mi), fmt.Sprintf("detour:m%d", mi), fmt.Sprintf("wrap-while-passthrough:m%d", mi), fmt.Sprintf("rejected-extension:m%d", mi), fmt.Sprintf("resubmit-kept:m%d", mi))
	}
	return ops
}

// c12ReducedOps: the operations that can plausibly interact (adversarial ones on every middleware, serving
// of two request kinds), used for the longest histories.
func c12ReducedOps(thorough bool) []string {
	var ops []string
	for mi := 0; mi < c12N; mi++ {
		ops = append(ops, fmt.Sprintf("serve:m%d:r2:scribble", mi), fmt.Sprintf("serve:m%d:r1:scribble", mi),
			fmt.Sprintf("scribble-input:m%d", mi), fmt.Sprintf("config-scribble:m%d", mi), fmt.Sprintf("reconfigure-scribble:m%d", mi), fmt.Sprintf("edit-resubmit:m%d", mi), fmt.Sprintf("detour:m%d", mi), fmt.Sprintf("rejected-extension:m%d", mi), fmt.Sprintf("resubmit-kept:m%d", mi))
		if thorough {
			ops = append(ops, fmt.Sprintf("serve:m%d:r7:scribble-preset", mi), fmt.Sprintf("roundtrip-scribble:m%d", mi), fmt.Sprintf("wrap-while-passthrough:m%d", mi))
		}
	}
	return ops
}

func (w *c12World) apply(op string) error {
	f := strings.Split(op, ":")
	var mi int
	fmt.Sscanf(f[1], "m%d", &mi)
	switch f[0] {
	case "serve":
		var ri int
		fmt.Sscanf(f[2], "r%d", &ri)
		var h http.Handler = noopHandler
		if strings.HasPrefix(f[3], "scribble") {
			h = scribbler{}
		}
		rec := vlib.NewRec()
		if f[3] == "scribble-preset" {
			rec.H["Vary"] = []string{"pre"} // a Vary value set earlier in the chain (slow paths)
		}
		w.m[mi].Wrap(h).ServeHTTP(rec, c12Requests()[ri].HTTP())
		// the caller owns the response header map after the call for non-preflight requests
	case "scribble-input":
		scribbleConfig(&w.inputs[mi])
	case "resubmit-kept":
		// the caller hands over, once more, the very Config value it handed over when the world was built and has not
		// touched since
		if err := w.m[mi].Reconfigure(&w.kept[mi]); err != nil {
			return fmt.Errorf("the Config value that was accepted when the world was built is rejected when handed over again, unchanged: %v", err)
		}
	case "rejected-extension":
		// Reconfigure is called with the current configuration extended - more origins after the current ones (an
		// attacker's, near misses of the probes' origins, a wildcard over them), one more name at the end of every other
		// list - and made unacceptable by its very last method: the call must fail, and a failed call changes nothing
		c := w.lits[mi].Config()
		c.Origins = append(c.Origins, evilOrigin, "https://attacker.org", "https://*.evil.example", "https://a.b.c.d.e.example")
		for _, p := range c12Probes() {
			if o := p.Hdr["Origin"]; len(o) == 1 && strings.HasPrefix(o[0], "https://") && !strings.ContainsAny(o[0][8:], "/ ") && len(c.Origins) < 40 {
				c.Origins = append(c.Origins, o[0])
			}
		}
		c.Methods = append(c.Methods, "EVIL", "CONNECT")
		c.RequestHeaders = append(c.RequestHeaders, "x-evil")
		c.ResponseHeaders = append(c.ResponseHeaders, "x-evil-r")
		if err := w.m[mi].Reconfigure(&c); err == nil {
			return fmt.Errorf("Reconfigure accepted a configuration that lists the method CONNECT")
		}
		scribbleConfig(&c)
	case "wrap-while-passthrough":
		// the middleware is made a passthrough one, a handler is obtained from Wrap and serves the probes, and the
		// middleware gets its configuration (and debug mode) back: the probes of every later step go through that handler
		dbg := mi == 1 || mi == 2
		if err := w.m[mi].Reconfigure(nil); err != nil {
			return err
		}
		rewrapLongLived(w.m[mi], mi%2)
		observe(w.m[mi], c12Probes())
		own := w.lits[mi].Config()
		if err := w.m[mi].Reconfigure(&own); err != nil {
			return err
		}
		w.m[mi].SetDebug(dbg)
	case "config-scribble":
		scribbleConfig(w.m[mi].Config())
	case "reconfigure-scribble":
		c := w.lits[mi].Config()
		if err := w.m[mi].Reconfigure(&c); err != nil {
			return err
		}
		scribbleConfig(&c)
	case "detour":
		// requests from every origin the probes use, then Reconfigure to the next middleware's configuration: from
		// then on the answers must be those of a fresh middleware for that configuration (whatever was served before);
		// then requests again and Reconfigure back
		serveAll := func() {
			h := w.m[mi].Wrap(noopHandler)
			for _, p := range c12Probes() {
				h.ServeHTTP(vlib.NewRec(), p.HTTP())
			}
		}
		serveAll()
		otherLit := w.lits[(mi+1)%c12N]
		other := otherLit.Config()
		if err := w.m[mi].Reconfigure(&other); err != nil {
			return err
		}
		fresh, err := cors.NewMiddleware(otherLit.Config())
		if err != nil {
			return err
		}
		fresh.SetDebug(mi == 1 || mi == 2)
		probes := c12Probes()
		for rev := 0; rev < 2; rev++ {
			a, b := observe(w.m[mi], probes), observe(fresh, probes)
			if j := firstDiff(a, b); j >= 0 {
				return fmt.Errorf("after serving the probes under %s and reconfiguring to %s, %s is answered with %s; a fresh middleware for that configuration answers %s", w.lits[mi].GoLiteral(), otherLit.GoLiteral(), probes[j], a[j], b[j])
			}
			slices.Reverse(probes)
		}
		serveAll()
		own := w.lits[mi].Config()
		if err := w.m[mi].Reconfigure(&own); err != nil {
			return err
		}
	case "edit-resubmit":
		// the caller keeps one Config value, edits one list after the other in place (one entry each) and resubmits
		// it: every resubmission must take effect (compared with a fresh middleware for a copy of the edited value);
		// at the end the original values are written back, again in place, and resubmitted
		c := w.lits[mi].Config()
		if err := w.m[mi].Reconfigure(&c); err != nil {
			return err
		}
		type edit struct {
			list []string
			alt  string
		}
		edits := []edit{{c.Origins, "https://alt.example"}, {c.Methods, "ALT"}, {c.RequestHeaders, "X-Alt"}, {c.ResponseHeaders, "X-Alt-R"}}
		var undo []func()
		for _, e := range edits {
			for i := len(e.list) - 1; i >= 0; i-- {
				if e.list[i] == "*" {
					continue
				}
				old, l, j := e.list[i], e.list, i
				l[j] = e.alt
				undo = append(undo, func() { l[j] = old })
				break
			}
			if err := w.m[mi].Reconfigure(&c); err != nil {
				return fmt.Errorf("edited configuration %+v rejected: %w", c, err)
			}
			clone := c
			clone.Origins, clone.Methods = append([]string(nil), c.Origins...), append([]string(nil), c.Methods...)
			clone.RequestHeaders, clone.ResponseHeaders = append([]string(nil), c.RequestHeaders...), append([]string(nil), c.ResponseHeaders...)
			fresh, err := cors.NewMiddleware(clone)
			if err != nil {
				return fmt.Errorf("edited configuration %+v rejected by NewMiddleware: %w", clone, err)
			}
			fresh.SetDebug(mi == 1 || mi == 2)
			probes := append(c12Probes(), vlib.Req{Method: "GET", Hdr: map[string][]string{"Origin": {"https://alt.example"}}},
				vlib.Req{Method: "OPTIONS", Hdr: map[string][]string{"Origin": {"https://alt.example"}, "Access-Control-Request-Method": {"ALT"}, "Access-Control-Request-Headers": {"x-alt"}}})
			a, b := observe(w.m[mi], probes), observe(fresh, probes)
			if j := firstDiff(a, b); j >= 0 {
				return fmt.Errorf("after editing the submitted Config in place to %+v and resubmitting it, %s is answered with %s; a fresh middleware for the same value answers %s", c, probes[j], a[j], b[j])
			}
		}
		for _, u := range undo {
			u()
		}
		if err := w.m[mi].Reconfigure(&c); err != nil {
			return err
		}
	case "roundtrip-scribble":
		c := w.m[mi].Config()
		if err := w.m[mi].Reconfigure(c); err != nil {
			return err
		}
		scribbleConfig(c)
	default:
		return fmt.Errorf("unknown op %s", op)
	}
	return nil
}

var (
	c12PristineOnce sync.Once
	c12Pristine     []string
	c12PristineErr  error
)

// c12Baseline: what each middleware answers to each probe when that probe is the very first request it ever
// sees (a fresh world per probe), computed once per process before any adversarial activity. Comparing with it
// (rather than with a probe run on the same world) also exposes answers that depend on an earlier *request*.
func c12Baseline() ([]string, error) {
	c12PristineOnce.Do(func() {
		probes := c12Probes()
		for mi := 0; mi < c12N; mi++ {
			for _, p := range probes {
				w, err := c12NewWorld()
				if err != nil {
					c12PristineErr = err
					return
				}
				c12Pristine = append(c12Pristine, observe(w.m[mi], []vlib.Req{p})...)
			}
		}
	})
	return c12Pristine, c12PristineErr
}

func c12Judge(k c12Case) *vlib.Failure {
	base, err := c12Baseline()
	if err != nil {
		return vlib.Failf("configurations of the C12 alphabet rejected: %v", err)
	}
	w, err := c12NewWorld()
	if err != nil {
		return vlib.Failf("configurations of the C12 alphabet rejected: %v", err)
	}
	for _, s := range base {
		if strings.Contains(s, canary) {
			return vlib.Failf("canary in a baseline response")
		}
	}
	if j := firstDiff(base, w.probe()); j >= 0 {
		probes := c12Probes()
		return vlib.Failf("before any operation: middleware m%d answers %s differently when it is not the first request it sees (the probes before it are the only history)", j/len(probes), probes[j%len(probes)])
	}
	probes := c12Probes()
	if k.Isolated {
		for mi := 0; mi < c12N; mi++ {
			for pi, p := range probes {
				w, err := c12NewWorld()
				if err != nil {
					return vlib.Failf("configurations of the C12 alphabet rejected: %v", err)
				}
				for i, op := range k.Ops {
					if err := w.apply(op); err != nil {
						return vlib.Failf("step %d %s failed: %v", i+1, op, err)
					}
				}
				if got := observe(w.m[mi], []vlib.Req{p}); got[0] != base[mi*len(probes)+pi] {
					return vlib.Failf("after %v, middleware m%d answers %s (its first request since) with %s; before any adversarial activity it answered %s", k.Ops, mi, p, got[0], base[mi*len(probes)+pi])
				}
			}
		}
		return nil
	}
	for i, op := range k.Ops {
		if err := w.apply(op); err != nil {
			return vlib.Failf("step %d %s failed: %v", i+1, op, err)
		}
		got := w.probe()
		if j := firstDiff(base, got); j >= 0 {
			return vlib.Failf("after %v, middleware m%d answers %s with %s; before any adversarial activity it answered %s", k.Ops[:i+1], j/len(probes), probes[j%len(probes)], got[j], base[j])
		}
	}
	// at the end: all probes once more behind an outer layer that hands over the same slice objects every time
	ob := c12OuterBaseline()
	vary, other := []string{"Accept-Encoding"}, []string{"1"}
	for mi := range w.m {
		got := observeBehindOuter(w.m[mi], probes, vary, other)
		for pi := range got {
			if len(ob) == c12N*len(probes) && got[pi] != ob[mi*len(probes)+pi] {
				return vlib.Failf("after %v, behind an outer layer that always hands over the same Vary slice, middleware m%d answers %s with %s; as its first request it answered %s", k.Ops, mi, probes[pi], got[pi], ob[mi*len(probes)+pi])
			}
		}
		if len(vary) != 1 || vary[0] != "Accept-Encoding" || other[0] != "1" {
			return vlib.Failf("after %v and the probes on m%d, the outer layer's own slices read Vary=%q X-Outer=%q: the middleware wrote into them", k.Ops, mi, vary, other)
		}
	}
	return nil
}

func c12Test(k c12Case) string {
	return fmt.Sprintf(`package cors_test

// Three middlewares (configurations A, B, C of engine/vcheck/c12.go); apply %v where
// "serve:mI:rJ:scribble" serves request J on middleware I with a handler that overwrites, in place and up to
// capacity, every slice of w.Header() and r.Header; "scribble-input" overwrites the slices of the Config passed
// to NewMiddleware; "config-scribble" those of m.Config(); "reconfigure-scribble"/"roundtrip-scribble" call
// Reconfigure and then overwrite the argument. Afterwards every middleware must answer the probe suite as before.
`, k.Ops)
}

func checkC12(c *vlib.Ctx) (string, string) {
	ck := &Checker[c12Case]{C: c, Judge: c12Judge, Test: c12Test}
	rule := "all operation sequences up to the stated lengths (no deduplication: the invariant is that observations never change) over: serve one of 8 requests on one of 5 live middlewares with a no-op or an in-place header-scribbling handler; scribble the Config passed in; scribble Config()'s result; Reconfigure then scribble the argument; after every step all middlewares answer a fixed probe suite exactly as at the start, canary-free; non-trivial = distinct history containing at least one adversarial operation"
	if ck.Replay() {
		return levelMC, rule
	}
	full, red := c12Ops(), c12ReducedOps(c.Thorough())
	type pass struct {
		ops []string
		n   int
	}
	// (length 3 over the full alphabet, 2.7 million histories x 5 middlewares x 90 probes, does not finish within the
	// thorough tier's internal deadline; the thorough tier therefore deepens the reduced alphabet only)
	var core []string // the three cheapest adversarial operations per middleware, for the deepest pass
	for mi := 0; mi < c12N; mi++ {
		core = append(core, fmt.Sprintf("serve:m%d:r2:scribble", mi), fmt.Sprintf("scribble-input:m%d", mi), fmt.Sprintf("config-scribble:m%d", mi))
	}
	passes := vlib.Pick(c, []pass{{full, 2}, {red, 3}}, []pass{{full, 2}, {red, 3}, {core, 4}})
	// Pass 0 is sequential and in simplest-first order: a history that corrupts process-global state (e.g. a
	// shared singleton slice) is then blamed itself, instead of whichever history happens to run next.
	w0 := vlib.NewWords(full, 1)
	for i := int64(1); i < w0.Count() && !c.Stopped(); i++ {
		var tmp [8]int
		k := c12Case{}
		for _, s := range w0.Syms(i, tmp[:0]) {
			k.Ops = append(k.Ops, full[s])
		}
		c.States.Add(1)
		c.Transitions.Add(int64(len(k.Ops)))
		if !ck.Try(k) {
			c.Set("note", "violation found in the sequential pass; deeper passes skipped because process-global state may be corrupted")
			return levelMC, rule
		}
	}
	// isolated probes: every history of length 1 over the full alphabet and of length 2 over the reduced one
	var iso []c12Case
	for _, a := range full {
		if !strings.HasSuffix(a, ":noop") {
			iso = append(iso, c12Case{Ops: []string{a}, Isolated: true})
		}
	}
	if c.Thorough() {
		for _, a := range red {
			for _, b := range red {
				iso = append(iso, c12Case{Ops: []string{a, b}, Isolated: true})
			}
		}
	}
	c.ParRange(int64(len(iso)), 1, "C12 isolated probes", func(i int64) {
		c.States.Add(int64(c12N * len(c12Probes())))
		c.Transitions.Add(int64(c12N * len(c12Probes()) * (len(iso[i].Ops) + 1)))
		c.Nontrivial.Add(1)
		ck.Try(iso[i])
	})
	c.Set("isolated_probe_histories", len(iso))
	for _, p := range passes {
		w := vlib.NewWords(p.ops, p.n)
		c.ParRange(w.Count(), 16, fmt.Sprintf("C12 histories of length <=%d over %d ops", p.n, len(p.ops)), func(i int64) {
			var tmp [8]int
			syms := w.Syms(i, tmp[:0])
			if len(syms) != p.n {
				return // shorter histories are prefixes of longer ones, which are probed after every step
			}
			k := c12Case{}
			adv := false
			for _, s := range syms {
				k.Ops = append(k.Ops, p.ops[s])
				if !strings.HasSuffix(p.ops[s], ":noop") {
					adv = true
				}
			}
			c.States.Add(1)
			c.Transitions.Add(int64(p.n))
			if adv {
				c.Nontrivial.Add(1)
			}
			ck.Try(k)
			c.SampleAt(i+1, func() any { return k })
		})
		if c.Stopped() {
			break
		}
	}
	c.Set("operations_full", len(full))
	c.Set("operations_reduced", len(red))
	c.Set("passes", fmt.Sprint(func() (s []string) {
		for _, p := range passes {
			s = append(s, fmt.Sprintf("length %d over %d ops", p.n, len(p.ops)))
		}
		return
	}()))
	return levelMC, rule
}

func init() { registry["C12"] = checkC12 }
