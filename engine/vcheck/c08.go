package main

import (
	"encoding/json"
	"fmt"
	"os"
	"strings"
	"time"

	"github.com/jub0bs/cors"
	"github.com/jub0bs/cors/internal/zzverif/ref"
	"github.com/jub0bs/cors/internal/zzverif/vlib"
)

// C08 — a rejected Reconfigure leaves the middleware exactly as it was. From every state of C09's closure
// (shortest history per state), every invalid configuration of a family is tried and then every continuation
// of length <= 2 is applied both to the middleware that saw the failed call and to a twin that did not.

type c08Case struct {
	Init string   `json:"init"`
	Hist []string `json:"history"`
	Bad  CfgLit   `json:"invalid_config"`
	// Derive != "": the invalid configuration is an edit of the middleware's current Config() (Bad is ignored)
	Derive string   `json:"derived_from_current,omitempty"`
	Cont   []string `json:"continuation"`
	// Shape 1: Bad is handed over with its lists as windows of one backing array, unused lists empty but non-nil
	Shape int `json:"slice_shape,omitempty"`
	// After: the process has just started and these configurations went through NewMiddleware (accepted or not)
	// before anything else happened (see "fresh processes" in main.go)
	After []CfgLit `json:"earlier_in_a_fresh_process,omitempty"`
}

var c08Derivations = []string{"cur+maxage", "cur+origin+badmethod", "cur+origins+status", "cur+origin+badorigin", "cur-reversed+origin+badheader", "cur+pna-both",
	// the current Config() with exactly one scalar field changed; whether that makes it invalid depends on the
	// current configuration and is decided by NewMiddleware on a fresh value (state-independent by C04/C05)
	"cur-tolerate-psl", "cur-tolerate-insecure", "cur+credentialed", "cur+pna", "cur+pna-nocors", "cur:status=199", "cur+star-response-header"}

// c08Derive builds an invalid configuration that is a small edit of cur: the current origins (as a prefix),
// near misses of the first pattern added (other scheme, another port, a sibling host), and one defect elsewhere.
func c08Derive(cur *cors.Config, how string) *cors.Config {
	if cur == nil {
		return nil
	}
	c := *cur
	c.Origins = append([]string(nil), cur.Origins...)
	c.Methods = append([]string(nil), cur.Methods...)
	c.RequestHeaders = append([]string(nil), cur.RequestHeaders...)
	c.ResponseHeaders = append([]string(nil), cur.ResponseHeaders...)
	var extras []string
	for _, p := range cur.Origins {
		if p == "*" {
			continue
		}
		scheme, host, port, ok := ref.SplitOrigin(p)
		if !ok {
			continue
		}
		base := strings.TrimPrefix(host, "*.")
		other := "http"
		if scheme == "http" {
			other = "https"
		}
		if port == "" {
			extras = append(extras, scheme+"://"+base+":8443")
		} else {
			extras = append(extras, scheme+"://"+base)
		}
		extras = append(extras, other+"://"+base, scheme+"://x"+base, "https://extra.example")
		break
	}
	if len(extras) == 0 {
		extras = []string{"https://extra.example", "http://extra.example", "https://a.example", "https://x.a.example"}
	}
	c.DangerouslyTolerateInsecureOrigins = cur.DangerouslyTolerateInsecureOrigins
	switch how {
	case "cur+maxage":
		c.MaxAgeInSeconds = -2
	case "cur+origin+badmethod":
		c.Origins = append(c.Origins, extras[0])
		c.Methods = append(c.Methods, "CONNECT")
	case "cur+origins+status":
		c.Origins = append(c.Origins, extras[1], extras[3])
		c.PreflightSuccessStatus = 199
	case "cur+origin+badorigin":
		c.Origins = append(c.Origins, extras[2], "https://bad.example/path")
	case "cur-reversed+origin+badheader":
		for i, j := 0, len(c.Origins)-1; i < j; i, j = i+1, j-1 {
			c.Origins[i], c.Origins[j] = c.Origins[j], c.Origins[i]
		}
		c.Origins = append(c.Origins, extras[0])
		c.RequestHeaders = append(c.RequestHeaders, "Cookie")
	case "cur+pna-both":
		c.Origins = append(c.Origins, extras[3])
		c.PrivateNetworkAccess, c.PrivateNetworkAccessInNoCORSModeOnly = true, true
	case "cur-tolerate-psl":
		c.DangerouslyTolerateSubdomainsOfPublicSuffixes = false
	case "cur-tolerate-insecure":
		c.DangerouslyTolerateInsecureOrigins = false
	case "cur+credentialed":
		c.Credentialed = true
	case "cur+pna":
		c.PrivateNetworkAccess = true
	case "cur+pna-nocors":
		c.PrivateNetworkAccessInNoCORSModeOnly = true
	case "cur:status=199":
		c.PreflightSuccessStatus = 199
	case "cur+star-response-header":
		c.ResponseHeaders = append(c.ResponseHeaders, "*")
	}
	if strings.HasPrefix(how, "cur-") || strings.HasPrefix(how, "cur+credentialed") || strings.HasPrefix(how, "cur+pna") && how != "cur+pna-both" || how == "cur+star-response-header" {
		if _, err := cors.NewMiddleware(c); err == nil {
			return nil // this edit of this configuration is valid: nothing to check
		}
	}
	return &c
}

func c08Bads() []CfgLit {
	d := CfgLit{Origins: []string{"https://d.example"}, Credentialed: true, Methods: []string{"QUERY"}, RequestHeaders: []string{"X-D"}, ResponseHeaders: []string{"X-U"}, MaxAge: 77, Status: 299}
	mut := func(f func(l *CfgLit)) CfgLit { l := d; f(&l); return l }
	return []CfgLit{
		mut(func(l *CfgLit) { l.Origins = nil }),
		mut(func(l *CfgLit) { l.Origins = []string{"null"} }),
		mut(func(l *CfgLit) { l.Origins = []string{"https://d.example", "https://d.example/x"} }),
		mut(func(l *CfgLit) { l.Origins = []string{"https://d.example", "*"} }),
		mut(func(l *CfgLit) { l.Origins = []string{"http://d.example"} }),
		mut(func(l *CfgLit) { l.Origins = []string{"https://d.example", "https://*.com"} }),
		mut(func(l *CfgLit) { l.Methods = []string{"CONNECT"} }),
		mut(func(l *CfgLit) { l.Methods = []string{"QUERY", "bad method", "*"} }),
		mut(func(l *CfgLit) { l.RequestHeaders = []string{"Cookie"} }),
		mut(func(l *CfgLit) { l.RequestHeaders = []string{"*", "X-D", "bad name"} }),
		mut(func(l *CfgLit) { l.ResponseHeaders = []string{"Set-Cookie"} }),
		mut(func(l *CfgLit) { l.ResponseHeaders = []string{"*"} }),
		mut(func(l *CfgLit) { l.Origins = []string{"https://*.amazonaws.com", "https://*.s3.amazonaws.com"} }),
		mut(func(l *CfgLit) {
			l.Origins = []string{"https://*.fastly.net:*", "https://*.global.ssl.fastly.net:8443"}
		}),
		mut(func(l *CfgLit) { l.Origins = []string{"https://xn--a-zhc.com"} }),
		// near misses of the hosts the insecure-origin rule exempts (d is credentialed and tolerates nothing)
		mut(func(l *CfgLit) { l.Origins = []string{"https://d.example", "http://notlocalhost"} }),
		mut(func(l *CfgLit) { l.Origins = []string{"http://app.localhost:3000"} }),
		mut(func(l *CfgLit) { l.Origins = []string{"http://128.0.0.1", "https://d.example"} }),
		mut(func(l *CfgLit) { l.Origins = []string{"http://[::2]:8080"} }),
		mut(func(l *CfgLit) { l.Origins = []string{"httpss://d.example"} }),
		// names that only a Unicode-aware case conversion would turn into acceptable ASCII ones
		mut(func(l *CfgLit) { l.Methods = []string{"po\u017ft"} }),
		mut(func(l *CfgLit) { l.Methods = []string{"QUERY", "opt\u0131ons"} }),
		mut(func(l *CfgLit) { l.RequestHeaders = []string{"x-\u212a"} }),
		mut(func(l *CfgLit) { l.ResponseHeaders = []string{"x-u", "x-\u017f"} }),
		mut(func(l *CfgLit) { l.MaxAge = -2 }),
		mut(func(l *CfgLit) { l.MaxAge = 86401 }),
		mut(func(l *CfgLit) { l.Status = 199 }),
		mut(func(l *CfgLit) { l.Status = 300 }),
		mut(func(l *CfgLit) { l.Status = 456 }),
		mut(func(l *CfgLit) { l.Status = 1000 }),
		mut(func(l *CfgLit) { l.Status = -56 }),
		mut(func(l *CfgLit) { l.Status = 1<<32 + 204 }),
		mut(func(l *CfgLit) { l.MaxAge = 100000 }),
		mut(func(l *CfgLit) { l.MaxAge = -86400 }),
		mut(func(l *CfgLit) { l.MaxAge = 1<<32 + 5 }),
		mut(func(l *CfgLit) { l.PNA, l.PNANoCORS = true, true }),
		mut(func(l *CfgLit) {
			l.Credentialed, l.PNA, l.PNANoCORS, l.Origins = false, true, true, []string{"https://d.example"}
		}),
		{Origins: []string{"*"}, PNA: true, TolInsecure: true, Methods: []string{"QUERY"}, MaxAge: 77},
		{Origins: []string{"https://d.example", "*"}, PNANoCORS: true, TolInsecure: true, TolPSL: true},
		{Origins: []string{"*", "https://d.example"}, Credentialed: true, TolInsecure: true, TolPSL: true, RequestHeaders: []string{"X-D"}},
		{Origins: []string{"https://d.example"}, Credentialed: true, TolInsecure: true, TolPSL: true, ResponseHeaders: []string{"X-U", "*"}},
		{Origins: []string{"https://d.example"}, Credentialed: true, ResponseHeaders: []string{"$Trace-Id", "*"}},
		{Origins: []string{"https://d.example"}, Credentialed: true, ResponseHeaders: []string{"*", "!x", "X-U"}, Methods: []string{"*", "!m"}, RequestHeaders: []string{"#h", "*"}},
		{Origins: []string{"https://*.com."}, TolInsecure: true, Methods: []string{"QUERY"}},
		{Origins: []string{"http://*.example.co.uk:*"}, PNA: true, TolPSL: true},
		{Origins: []string{"null", "*", "http://d.example"}, Credentialed: true, PNA: true, PNANoCORS: true, Methods: []string{"TRACE", ""}, RequestHeaders: []string{"Host", "é"}, ResponseHeaders: []string{"*", "Origin"}, MaxAge: -5, Status: 404},
	}
}

func c08Replay(init string, hist []string) (*cors.Middleware, *vlib.Failure) {
	m, _, err := smInit(init)
	if err != nil {
		return nil, vlib.Failf("configuration A rejected: %v", err)
	}
	for _, op := range hist {
		smApply(m, op) // errors of Reconfigure(invalid) inside the history are C09's business
	}
	return m, nil
}

func c08Judge(k c08Case) *vlib.Failure {
	if len(k.After) > 0 {
		if os.Getenv(childEnv) == "" {
			if d, bad := inFreshProcess("C08", []c08Case{k})[0]; bad {
				return vlib.Failf("%s", d)
			}
			return nil
		}
		// in the child, and first in its list: nothing has touched the package under test yet
		for _, a := range k.After {
			cors.NewMiddleware(a.Config())
		}
	}
	if f := smEnsure(); f != nil {
		return f
	}
	m, f := c08Replay(k.Init, k.Hist)
	if f != nil {
		return f
	}
	twin, _ := c08Replay(k.Init, k.Hist)
	before := observe(m, smSuite)
	cfgBefore := m.Config()
	bad := k.Bad.Config()
	if k.Shape == 1 {
		bad = k.Bad.ConfigAlt()
	}
	badText := k.Bad.GoLiteral()
	if k.Derive != "" {
		d := c08Derive(cfgBefore, k.Derive)
		if d == nil {
			return nil // passthrough (nothing to derive from), or the edit leaves the configuration valid
		}
		bad, badText = *d, fmt.Sprintf("%s = %+v", k.Derive, *d)
	}
	if err := m.Reconfigure(&bad); err == nil {
		return vlib.Failf("Reconfigure accepted the invalid configuration %s", badText)
	}
	if i := firstDiff(before, observe(m, smSuite)); i >= 0 {
		return vlib.Failf("after the rejected Reconfigure(%s) in state %v from %s, the answer to %s changed", badText, k.Hist, k.Init, smSuite[i])
	}
	if !cfgEqual(cfgBefore, m.Config()) {
		return vlib.Failf("after the rejected Reconfigure, Config() changed from %+v to %+v", cfgBefore, m.Config())
	}
	for i, op := range k.Cont {
		e1, e2 := smApply(m, op), smApply(twin, op)
		if (e1 == nil) != (e2 == nil) {
			return vlib.Failf("continuation step %d %s: err=%v after the rejected call, err=%v on the untouched twin", i+1, op, e1, e2)
		}
		a, b := observe(m, smSuite), observe(twin, smSuite)
		if j := firstDiff(a, b); j >= 0 {
			return vlib.Failf("state %v from %s; rejected Reconfigure(%s); then %v: the answer to %s is %s, the untouched twin answers %s", k.Hist, k.Init, badText, k.Cont[:i+1], smSuite[j], a[j], b[j])
		}
		if !cfgEqual(m.Config(), twin.Config()) {
			return vlib.Failf("after continuation %v Config() differs from the untouched twin's", k.Cont[:i+1])
		}
	}
	return nil
}

func c08Test(k c08Case) string {
	return fmt.Sprintf(`package cors_test

// Start from %s, apply %v (configurations A, B, C, invalid of engine/vcheck/c09.go), then
// m.Reconfigure(&%s) must fail and change nothing: same answers to a probe suite, equal Config(), and after
// the continuation %v the middleware must still behave like a twin that never saw the failed call.
`, k.Init, k.Hist, k.Bad.GoLiteral(), k.Cont)
}

func checkC08(c *vlib.Ctx) (string, string) {
	ck := &Checker[c08Case]{C: c, Judge: c08Judge, Test: c08Test, Watchdog: 20 * time.Second}
	rule := "from every state of the closure of {SetDebug, Reconfigure(nil/A/B/C/invalid/Config())} on the real Middleware (both initial states), every invalid configuration of a 19-element family (single and multiple defects in every field, other fields valid and different from every state) and of 6 edits of the current Config() (current origins kept as a prefix plus near-miss patterns, one defect elsewhere) is passed to Reconfigure, then every continuation of length <= 2 is applied to it and to an untouched twin (bounded bisimulation); non-trivial = distinct (state, invalid configuration, continuation) with a configured start state"
	if ck.Replay() {
		return levelMC, rule
	}
	if f := smEnsure(); f != nil {
		ck.Report(c08Case{Init: "zero"}, f)
		return levelMC, rule
	}
	bads := c08Bads()
	conts := lists(smOps, vlib.Pick(c, 2, 3))
	for _, init := range []string{"new(A)", "zero"} {
		s := &vlib.SeqSearch{NOps: len(smOps), What: "C08 closure " + init,
			Run: func(hist []uint8) (string, *vlib.Failure) {
				m, _, err := smInit(init)
				if err != nil {
					return "", vlib.Failf("configuration A rejected: %v", err)
				}
				for _, o := range hist {
					smApply(m, smOps[o])
				}
				return vlib.Dump(m), nil
			},
			OnFail: func(hist []uint8, f *vlib.Failure) {
				ck.Report(c08Case{Init: init, Hist: []string{fmt.Sprint(hist)}}, f)
			},
		}
		r := s.BFS(c)
		if !r.Closed {
			c.Cap("closure not reached from " + init)
		}
		c.States.Add(int64(r.States))
		c.Set("closure_"+init, map[string]any{"states": r.States, "transitions": r.Transitions, "closed": r.Closed})
		prod := vlib.Product{Sizes: []int{len(r.Reps), len(bads) + len(c08Derivations), len(conts)}}
		c.ParRange(prod.Count(), 4, "C08 "+init, func(i int64) {
			var tmp [4]int
			ix := prod.At(i, tmp[:0])
			k := c08Case{Init: init, Cont: conts[ix[2]]}
			if ix[1] < len(bads) {
				k.Bad = bads[ix[1]]
			} else {
				k.Derive = c08Derivations[ix[1]-len(bads)]
			}
			for _, o := range r.Reps[ix[0]] {
				k.Hist = append(k.Hist, smOps[o])
			}
			c.Transitions.Add(int64(1 + len(k.Cont)))
			if ck.Try(k) && len(k.Hist) > 0 {
				c.Nontrivial.Add(1)
			}
			if b := k.Bad; k.Derive == "" && (len(b.Origins) == 0 || len(b.Methods) == 0 || len(b.RequestHeaders) == 0 || len(b.ResponseHeaders) == 0 || ix[2]%4 == 0) {
				// the other slice shape: always where a list is empty (nil versus empty non-nil), else for every fourth continuation
				k2 := k
				k2.Shape = 1
				c.Transitions.Add(int64(1 + len(k.Cont)))
				ck.Try(k2)
			}
			c.SampleAt(i+1, func() any { return k })
		})
		if c.Stopped() {
			break
		}
	}
	c08FreshProcessPass(c, ck)
	c.Set("invalid_configurations", len(bads))
	c.Set("continuations", len(conts))
	return levelMC, rule
}

// c08FreshProcessPass: the first thing a process does is to validate one single-origin configuration (every origin
// atom, without and with both DangerouslyTolerate* switches); then every single-origin configuration that the
// documentation prohibits is passed to Reconfigure of a configured and of a zero-value middleware in that process.
func c08FreshProcessPass(c *vlib.Ctx, ck *Checker[c08Case]) {
	var battery []c08Case
	for _, a := range c04OA {
		if len(ref.Validate(ref.AtomConfig{Origins: []ref.OriginAtom{a}})) == 0 {
			continue
		}
		for _, init := range []string{"new(A)", "zero"} {
			battery = append(battery, c08Case{Init: init, Bad: CfgLit{Origins: []string{a.Value}}})
		}
	}
	var firsts []CfgLit
	for _, a := range c04OA {
		firsts = append(firsts, CfgLit{Origins: []string{a.Value}}, CfgLit{Origins: []string{a.Value}, TolInsecure: true, TolPSL: true})
	}
	c.ParRange(int64(len(firsts)), 1, "C08 fresh processes", func(i int64) {
		seq := append([]c08Case(nil), battery...)
		seq[0].After = []CfgLit{firsts[i]}
		c.States.Add(1)
		c.Transitions.Add(int64(len(seq)))
		c.Evaluations.Add(int64(len(seq)))
		fails := inFreshProcess("C08", seq)
		for j := range seq {
			d, bad := fails[j]
			if !bad {
				continue
			}
			k := seq[j]
			k.After = []CfgLit{firsts[i]}
			if ck.Judge(k) == nil {
				// not reproducible from the first validation alone: keep everything that came before
				for _, e := range seq[:j] {
					k.After = append(k.After, e.Bad)
				}
			}
			ck.Report(k, vlib.Failf("%s", afterNote(len(k.After), d)))
			break
		}
	})
	c.Set("fresh_process_histories", map[string]int{"first_validations": len(firsts), "rejected_reconfigurations_afterwards_each": len(battery)})
}

func init() {
	registry["C08"] = checkC08
	childJudges["C08"] = func(raw json.RawMessage) *vlib.Failure {
		var k c08Case
		if err := json.Unmarshal(raw, &k); err != nil {
			vlib.HarnessError("fresh-process child: cannot decode case: %v", err)
		}
		return c08Judge(k)
	}
}
