package main

import (
	"encoding/json"
	"errors"
	"fmt"
	"net/http"
	"os"
	"strings"
	"sync/atomic"
	"unicode/utf8"

	"github.com/jub0bs/cors"
	"github.com/jub0bs/cors/cfgerrors"
	"github.com/jub0bs/cors/internal/origins"
	"github.com/jub0bs/cors/internal/zzverif/ref"
	"github.com/jub0bs/cors/internal/zzverif/vlib"
)

// C13 — origin-pattern grammar: documented forms accepted, documented non-forms rejected.

type c13Case struct {
	Pattern string   `json:"pattern"`
	Valid   bool     `json:"valid"`             // by construction
	How     string   `json:"how"`               // how the string was constructed
	Company []string `json:"company,omitempty"` // valid patterns listed with it (before it, or after it when After is set)
	After   bool     `json:"company_after,omitempty"`
	// Ctx > 0: the rest of the configuration is invalid too (c13Contexts); the defective string must still be named
	Ctx int `json:"invalid_context,omitempty"`
	// Route 1: a middleware holds as many placeholder patterns; the Origins of its own Config() result are overwritten
	// in place with the list and the result is handed to Reconfigure of that middleware
	Route int `json:"route,omitempty"`
	// Route 2: the pattern is listed twice (first and last) and the very same Config value is submitted twice; the
	// second verdict is judged
	// Earlier: the process has just started and has validated these patterns (each alone, both DangerouslyTolerate*
	// switches on) before anything else happened (see "fresh processes" in main.go)
	Earlier []string `json:"earlier_in_a_fresh_process,omitempty"`
}

// c13Contexts make the rest of a configuration invalid, each in another field.
var c13Contexts = []func(*cors.Config){nil,
	func(c *cors.Config) { c.PreflightSuccessStatus = 999 },
	func(c *cors.Config) { c.PrivateNetworkAccess, c.PrivateNetworkAccessInNoCORSModeOnly = true, true },
	func(c *cors.Config) {
		c.MaxAgeInSeconds = -5
		c.Methods = []string{"bad method"}
		c.ResponseHeaders = []string{"Set-Cookie"}
	},
	func(c *cors.Config) {
		c.Credentialed = true
		c.Origins = append([]string{"*"}, c.Origins...)
		c.RequestHeaders = []string{"Cookie"}
	},
}

func c13Judge(k c13Case) *vlib.Failure {
	if len(k.Earlier) > 0 {
		if os.Getenv(childEnv) == "" {
			if d, bad := inFreshProcess("C13", []c13Case{k})[0]; bad {
				return vlib.Failf("%s", d)
			}
			return nil
		}
		for _, p := range k.Earlier {
			cors.NewMiddleware(cors.Config{Origins: []string{p}, ExtraConfig: cors.ExtraConfig{DangerouslyTolerateInsecureOrigins: true, DangerouslyTolerateSubdomainsOfPublicSuffixes: true}})
		}
	}
	list := []string{k.Pattern}
	if k.After {
		list = append(list, k.Company...)
	} else {
		list = append(append([]string(nil), k.Company...), k.Pattern)
	}
	cfg := cors.Config{Origins: list, ExtraConfig: cors.ExtraConfig{DangerouslyTolerateSubdomainsOfPublicSuffixes: true}}
	if k.Ctx > 0 {
		c13Contexts[k.Ctx](&cfg)
		_, err := cors.NewMiddleware(cfg)
		err2 := new(cors.Middleware).Reconfigure(&cfg)
		for _, e := range []error{err, err2} {
			named := false
			for leaf := range cfgerrors.All(e) {
				var u *cfgerrors.UnacceptableOriginPatternError
				if e != nil && errors.As(leaf, &u) && u.Value == k.Pattern {
					named = true
				}
			}
			if !named {
				return vlib.Failf("%q (%s), listed in a configuration that is also wrong elsewhere (context %d), is not named by any UnacceptableOriginPatternError; the error is: %v", k.Pattern, k.How, k.Ctx, e)
			}
		}
		return nil
	}
	if k.Route == 2 {
		cfg.Origins = append([]string{k.Pattern}, list...)
		list = cfg.Origins
		cors.NewMiddleware(cfg)
	}
	m, err := cors.NewMiddleware(cfg)
	if k.Route == 1 {
		ph := make([]string, len(list))
		for i := range ph {
			ph[i] = fmt.Sprintf("https://placeholder%d.example", i)
		}
		m0, e0 := cors.NewMiddleware(cors.Config{Origins: ph, ExtraConfig: cfg.ExtraConfig})
		if e0 != nil {
			return vlib.Failf("placeholder configuration rejected: %v", e0)
		}
		cur := m0.Config()
		if len(cur.Origins) == len(list) {
			copy(cur.Origins, list)
		} else {
			cur.Origins = list
		}
		m, err = m0, m0.Reconfigure(cur)
		if err != nil {
			m = nil
		}
	}
	_, perr := origins.ParsePattern(k.Pattern)
	if (err == nil) != (perr == nil) {
		return vlib.Failf("NewMiddleware (err=%v) and origins.ParsePattern (err=%v) disagree on %q", err, perr, k.Pattern)
	}
	if k.Valid {
		if err != nil {
			return vlib.Failf("pattern %q of the documented form (%s) is rejected: %v", k.Pattern, k.How, err)
		}
		if !strings.Contains(k.Pattern, "*") {
			rec := vlib.NewRec()
			m.Wrap(http.HandlerFunc(func(http.ResponseWriter, *http.Request) {})).ServeHTTP(rec, vlib.Req{Method: "GET", Hdr: map[string][]string{"Origin": {k.Pattern}}}.HTTP())
			if got := rec.H["Access-Control-Allow-Origin"]; len(got) != 1 || got[0] != k.Pattern {
				return vlib.Failf("accepted wildcard-free pattern %q (%s) presented verbatim as Origin is not allowed (ACAO=%q)", k.Pattern, k.How, got)
			}
		}
		return nil
	}
	if err == nil {
		return vlib.Failf("string %q carrying a documented defect (%s) is accepted as an origin pattern", k.Pattern, k.How)
	}
	n := 0
	for e := range cfgerrors.All(err) {
		n++
		var u *cfgerrors.UnacceptableOriginPatternError
		if !errors.As(e, &u) {
			return vlib.Failf("%q (%s) rejected with %T, want *cfgerrors.UnacceptableOriginPatternError", k.Pattern, k.How, e)
		}
		if u.Value != k.Pattern {
			return vlib.Failf("%q (%s) rejected with an error naming %q", k.Pattern, k.How, u.Value)
		}
		if u.Reason != "invalid" && u.Reason != "prohibited" {
			return vlib.Failf("%q (%s) rejected with Reason %q", k.Pattern, k.How, u.Reason)
		}
	}
	if n == 0 {
		return vlib.Failf("%q (%s) rejected with an error tree that holds no error", k.Pattern, k.How)
	}
	return nil
}

func c13Test(k c13Case) string {
	return fmt.Sprintf(`package cors_test

import ("testing"; "github.com/jub0bs/cors")

func TestC13Replay(t *testing.T) {
	cfg := cors.Config{Origins: []string{%q}}
	cfg.DangerouslyTolerateSubdomainsOfPublicSuffixes = true
	_, err := cors.NewMiddleware(cfg) // constructed as: %s; valid by construction: %t
	if (err == nil) != %t { t.Fatalf("err = %%v", err) }
}
`, k.Pattern, k.How, k.Valid, k.Valid)
}

type c13Base struct {
	scheme, host, port string // host without wildcard prefix; port without colon ("" none)
	wild               bool
	kind               string // domain | ipv4 | ipv6
}

func (b c13Base) String() string {
	s := b.scheme + "://"
	if b.wild {
		s += "*."
	}
	s += b.host
	if b.port != "" {
		s += ":" + b.port
	}
	return s
}

func c13Bases() []c13Base {
	schemes := []string{"a", "http", "https", "a+b-c.d", "s" + strings.Repeat("x", 62), c01Scheme64, "chrome-extension", "app+v1.0", "a1"}
	type hk struct {
		h, kind string
		wildOK  bool
	}
	hosts := []hk{
		{"localhost", "domain", true}, {"example.com", "domain", true}, {"www.xn--xample-9ua.com", "domain", true}, {"example.com.", "domain", true},
		{strings.Repeat("a", 63) + ".com", "domain", true}, {c01Host253, "domain", false}, {c01Host253 + ".", "domain", false}, {c01Base251, "domain", true},
		{"a-b.c1.d", "domain", true}, {"a." + strings.Repeat("l", 63), "domain", true}, {"a." + strings.Repeat("m", 63) + ".com", "domain", true}, {"a." + strings.Repeat("l", 63) + ".", "domain", true}, {"1a.b", "domain", true}, {"api-v2.example.co.uk", "domain", true}, {"xn--bcher-kva.example", "domain", true}, {"host-1.internal", "domain", true},
		{"10.0.0.1", "ipv4", false}, {"[fe80::1]", "ipv6", false},
		{"1.2.3.4", "ipv4", false}, {"127.0.0.1", "ipv4", false}, {"255.255.255.255", "ipv4", false},
		{"[::1]", "ipv6", false}, {"[2001:db8::1]", "ipv6", false}, {"[::]", "ipv6", false},
	}
	ports := []string{"", "1", "65535", "8080", "*", "80", "443", "49152", "10000"}
	var out []c13Base
	for _, s := range schemes {
		for _, h := range hosts {
			if h.kind != "domain" && s == "https" {
				continue // grey zone: https with an IP host
			}
			for _, p := range ports {
				if p == "80" && s == "http" || p == "443" && s == "https" {
					continue
				}
				out = append(out, c13Base{s, h.h, p, false, h.kind})
				if h.wildOK {
					out = append(out, c13Base{s, h.h, p, true, h.kind})
				}
			}
		}
	}
	return out
}

// c13Company returns lists of valid patterns that cover what a defective variant of b could be taken to denote:
// the base itself, the same host on any port, any subdomain of the host's parent, and the lone wildcard.
func c13Company(b c13Base) [][]string {
	var out [][]string
	try := func(l ...string) {
		if _, err := cors.NewMiddleware(cors.Config{Origins: l, ExtraConfig: cors.ExtraConfig{DangerouslyTolerateSubdomainsOfPublicSuffixes: true}}); err == nil {
			out = append(out, l)
		}
	}
	try(b.String())
	try(b.scheme + "://" + b.host + ":*")
	if b.kind == "domain" {
		if i := strings.IndexByte(b.host, '.'); i > 0 && i+1 < len(b.host) {
			try(b.scheme + "://*." + b.host[i+1:] + ":*")
			try(b.scheme+"://*."+b.host[i+1:]+":*", b.scheme+"://"+b.host+":*")
		}
		try(b.scheme + "://*." + b.host + ":*")
	}
	try("*")
	return out
}

type c13Defect struct {
	name string
	f    func(b c13Base) (string, bool)
}

func c13Defects() []c13Defect {
	rep := func(b c13Base, host string) string { b.host = host; return b.String() }
	firstLetter := func(h string) int {
		for i := 0; i < len(h); i++ {
			if h[i] >= 'a' && h[i] <= 'z' {
				return i
			}
		}
		return -1
	}
	withPort := func(p string) func(b c13Base) (string, bool) {
		return func(b c13Base) (string, bool) {
			b.port = "\x00"
			return strings.Replace(b.String(), "\x00", p, 1), true
		}
	}
	d := []c13Defect{
		{"upper-case host letter", func(b c13Base) (string, bool) {
			i := firstLetter(b.host)
			if i < 0 {
				return "", false
			}
			return rep(b, b.host[:i]+strings.ToUpper(b.host[i:i+1])+b.host[i+1:]), true
		}},
		{"upper-case scheme letter", func(b c13Base) (string, bool) {
			b.scheme = strings.ToUpper(b.scheme[:1]) + b.scheme[1:]
			return b.String(), true
		}},
		{"Unicode in host", func(b c13Base) (string, bool) {
			if b.kind != "domain" {
				return "", false
			}
			return rep(b, "é"+b.host), true
		}},
		{"userinfo", func(b c13Base) (string, bool) { return strings.Replace(b.String(), "://", "://user@", 1), true }},
		{"trailing slash", func(b c13Base) (string, bool) { return b.String() + "/", true }},
		{"path", func(b c13Base) (string, bool) { return b.String() + "/p", true }},
		{"query", func(b c13Base) (string, bool) { return b.String() + "?q", true }},
		{"fragment", func(b c13Base) (string, bool) { return b.String() + "#f", true }},
		{"leading space", func(b c13Base) (string, bool) { return " " + b.String(), true }},
		{"trailing space", func(b c13Base) (string, bool) { return b.String() + " ", true }},
		{"empty port", withPort("")}, {"port 0", withPort("0")}, {"port 65536", withPort("65536")}, {"port 99999", withPort("99999")},
		{"6-digit port", withPort("100000")}, {"leading-zero port", withPort("080")}, {"port *0", withPort("*0")}, {"port **", withPort("**")}, {"port 8o", withPort("8o")},
		{"default port", func(b c13Base) (string, bool) {
			switch b.scheme {
			case "http":
				b.port = "80"
			case "https":
				b.port = "443"
			default:
				return "", false
			}
			return b.String(), true
		}},
		{"file scheme", func(b c13Base) (string, bool) { b.scheme = "file"; return b.String(), true }},
		{"65-byte scheme", func(b c13Base) (string, bool) { b.scheme = c01Scheme64 + "x"; return b.String(), true }},
		{"scheme starting with a digit", func(b c13Base) (string, bool) { b.scheme = "1" + b.scheme; return b.String(), true }},
		{"missing //", func(b c13Base) (string, bool) { return strings.Replace(b.String(), "://", ":", 1), true }},
		{"wildcard mid-label", func(b c13Base) (string, bool) {
			if b.kind != "domain" {
				return "", false
			}
			return rep(b, b.host[:1]+"*"+b.host[1:]), true
		}},
		{"wildcard glued to label", func(b c13Base) (string, bool) {
			if b.kind != "domain" || b.wild {
				return "", false
			}
			return rep(b, "*"+b.host), true
		}},
		{"double wildcard", func(b c13Base) (string, bool) {
			if b.kind != "domain" {
				return "", false
			}
			b.wild = true
			return rep(b, "*."+b.host), true
		}},
		{"wildcard not leading", func(b c13Base) (string, bool) {
			if b.kind != "domain" {
				return "", false
			}
			return rep(b, "a.*."+b.host), true
		}},
		{"wildcard before IP", func(b c13Base) (string, bool) {
			if b.kind == "domain" {
				return "", false
			}
			b.wild = true
			return b.String(), true
		}},
		{"empty label", func(b c13Base) (string, bool) {
			if b.kind != "domain" || !strings.Contains(strings.TrimSuffix(b.host, "."), ".") {
				return "", false
			}
			return rep(b, strings.Replace(b.host, ".", "..", 1)), true
		}},
		{"leading dot", func(b c13Base) (string, bool) {
			if b.kind != "domain" || b.wild {
				return "", false
			}
			return rep(b, "."+b.host), true
		}},
		{"64-byte label", func(b c13Base) (string, bool) {
			if b.kind != "domain" || len(b.host) > 150 {
				return "", false
			}
			return rep(b, strings.Repeat("z", 64)+"."+b.host), true
		}},
		{"64-byte last label", func(b c13Base) (string, bool) {
			if b.kind != "domain" || len(b.host) > 150 {
				return "", false
			}
			if h, dot := strings.CutSuffix(b.host, "."); dot {
				return rep(b, h+"."+strings.Repeat("z", 64)+"."), true
			}
			return rep(b, b.host+"."+strings.Repeat("z", 64)), true
		}},
		{"64-byte middle label", func(b c13Base) (string, bool) {
			i := strings.IndexByte(b.host, '.')
			if b.kind != "domain" || len(b.host) > 150 || i < 0 || i == len(b.host)-1 {
				return "", false
			}
			return rep(b, b.host[:i+1]+strings.Repeat("z", 64)+b.host[i:]), true
		}},
		{"254-byte domain", func(b c13Base) (string, bool) {
			switch b.host { // lengthen the last label (61 -> 62 bytes) so that only the total length is at fault
			case c01Host253:
				return rep(b, b.host+"e"), true
			case c01Host253 + ".":
				return rep(b, c01Host253+"e."), true
			}
			return "", false
		}},
		{"252-byte wildcard base", func(b c13Base) (string, bool) {
			if b.host != c01Base251 || !b.wild {
				return "", false
			}
			return rep(b, b.host+"e"), true // last label 59 -> 60 bytes: only the total length is at fault
		}},
		{"IPv4 last part in hexadecimal", func(b c13Base) (string, bool) {
			i := strings.LastIndexByte(b.host, '.')
			if b.kind != "ipv4" || b.scheme == "https" {
				return "", false
			}
			var n int
			fmt.Sscan(b.host[i+1:], &n)
			return rep(b, fmt.Sprintf("%s0x%x", b.host[:i+1], n)), true
		}},
		{"IPv4 as one hexadecimal number", func(b c13Base) (string, bool) {
			if b.kind != "ipv4" || b.scheme == "https" {
				return "", false
			}
			var p [4]int
			fmt.Sscanf(b.host, "%d.%d.%d.%d", &p[0], &p[1], &p[2], &p[3])
			return rep(b, fmt.Sprintf("0x%02x%02x%02x%02x", p[0], p[1], p[2], p[3])), true
		}},
		{"IPv4 with three parts", func(b c13Base) (string, bool) {
			i := strings.LastIndexByte(b.host, '.')
			if b.kind != "ipv4" || b.scheme == "https" {
				return "", false
			}
			return rep(b, b.host[:i]), true
		}},
		{"IPv6 expanded", func(b c13Base) (string, bool) {
			if b.host != "[::1]" {
				return "", false
			}
			return rep(b, "[0:0:0:0:0:0:0:1]"), true
		}},
		{"IPv6 leading zeros", func(b c13Base) (string, bool) {
			if b.host != "[2001:db8::1]" {
				return "", false
			}
			return rep(b, "[2001:0db8::1]"), true
		}},
		{"IPv6 upper case", func(b c13Base) (string, bool) {
			if b.host != "[2001:db8::1]" {
				return "", false
			}
			return rep(b, "[2001:DB8::1]"), true
		}},
		{"IPv6 zone", func(b c13Base) (string, bool) {
			if b.kind != "ipv6" {
				return "", false
			}
			return rep(b, strings.TrimSuffix(b.host, "]")+"%eth0]"), true
		}},
		{"IPv4-mapped IPv6", func(b c13Base) (string, bool) {
			if b.kind != "ipv6" {
				return "", false
			}
			return rep(b, "[::ffff:1.2.3.4]"), true
		}},
		{"IPv6 without brackets", func(b c13Base) (string, bool) {
			if b.kind != "ipv6" {
				return "", false
			}
			return rep(b, strings.Trim(b.host, "[]")), true
		}},
		{"IPv6 unclosed bracket", func(b c13Base) (string, bool) {
			if b.kind != "ipv6" {
				return "", false
			}
			return rep(b, strings.TrimSuffix(b.host, "]")), true
		}},
		{"IPv4 hex", func(b c13Base) (string, bool) {
			if b.kind != "ipv4" {
				return "", false
			}
			return rep(b, "0x7f000001"), true
		}},
		{"IPv4 short", func(b c13Base) (string, bool) {
			if b.kind != "ipv4" {
				return "", false
			}
			return rep(b, "127.1"), true
		}},
		{"IPv4 leading zero", func(b c13Base) (string, bool) {
			if b.kind != "ipv4" {
				return "", false
			}
			return rep(b, "0"+b.host), true
		}},
		{"IPv4 out of range", func(b c13Base) (string, bool) {
			if b.kind != "ipv4" {
				return "", false
			}
			return rep(b, "256.1.1.1"), true
		}},
	}
	return d
}

func checkC13(c *vlib.Ctx) (string, string) {
	ck := &Checker[c13Case]{C: c, Judge: c13Judge, Test: c13Test}
	rule := "every pattern of the documented grammar built from the scheme x host x port product (all length maxima, also all at once) must be accepted and match itself; every such pattern x every applicable single-defect operator must be rejected with an UnacceptableOriginPatternError naming the string; plus every string of {a://,https://,http://}.Sigma^{<=n} judged by a reference recogniser (valid / invalid / not judged); non-trivial = distinct string that is valid, or invalid by exactly one defect"
	if ck.Replay() {
		return levelMC, rule
	}
	bases := c13Bases()
	defects := c13Defects()
	var nValid, nInvalid, nCompany int64
	for _, b := range bases {
		s := b.String()
		nValid++
		c.Nontrivial.Add(1)
		ck.Try(c13Case{Pattern: s, Valid: true, How: "documented grammar"})
		ck.Try(c13Case{Pattern: s, Valid: true, How: "documented grammar", Route: 1})
		ck.Try(c13Case{Pattern: s, Valid: true, How: "documented grammar", Route: 2})
		// the same host under other schemes (chosen so that byte order and length order of the scheme names disagree),
		// other ports, and a sibling host that differs in the byte left of a shared suffix (- sorts before .)
		if !b.wild {
			hp := b.host
			if b.port != "" {
				hp += ":" + b.port
			}
			for _, co := range [][]string{{"http://" + hp, "ws://" + hp}, {"wss://" + hp, "https://" + hp, "capacitor://" + hp}, {"zz://" + hp, "a://" + hp, "https://" + hp}, {b.scheme + "://" + b.host + ":81", b.scheme + "://" + b.host + ":*"}} {
				if _, err := cors.NewMiddleware(cors.Config{Origins: co, ExtraConfig: cors.ExtraConfig{DangerouslyTolerateSubdomainsOfPublicSuffixes: true}}); err != nil {
					continue // (e.g. a default port under https, an insecure scheme for this host)
				}
				ck.Try(c13Case{Pattern: s, Valid: true, How: "documented grammar", Company: co})
				ck.Try(c13Case{Pattern: s, Valid: true, How: "documented grammar", Company: co, After: true})
			}
			if b.kind == "domain" {
				if i := strings.IndexByte(b.host, '.'); i > 0 && i < 60 {
					sib := b.scheme + "://" + b.host[:i] + "-" + b.host[i+1:]
					if _, err := cors.NewMiddleware(cors.Config{Origins: []string{sib}, ExtraConfig: cors.ExtraConfig{DangerouslyTolerateSubdomainsOfPublicSuffixes: true}}); err == nil {
						ck.Try(c13Case{Pattern: s, Valid: true, How: "documented grammar", Company: []string{sib}})
						ck.Try(c13Case{Pattern: s, Valid: true, How: "documented grammar", Company: []string{sib}, After: true})
					}
				}
			}
		}
		comps := c13Company(b)
		for _, d := range defects {
			if m, ok := d.f(b); ok {
				nInvalid++
				c.Nontrivial.Add(1)
				ck.Try(c13Case{Pattern: m, How: d.name + " applied to " + s})
				ck.Try(c13Case{Pattern: m, How: d.name + " applied to " + s, Route: 1})
				ck.Try(c13Case{Pattern: m, How: d.name + " applied to " + s, Route: 2})
				for ctx := 1; ctx < len(c13Contexts); ctx++ {
					nCompany++
					ck.Try(c13Case{Pattern: m, How: d.name + " applied to " + s, Ctx: ctx})
				}
				// the same string listed after / before valid patterns that cover what it would denote
				for _, co := range comps {
					nCompany += 2
					ck.Try(c13Case{Pattern: m, How: d.name + " applied to " + s, Company: co})
					ck.Try(c13Case{Pattern: m, How: d.name + " applied to " + s, Company: co, Route: 1})
					ck.Try(c13Case{Pattern: m, How: d.name + " applied to " + s, Company: co, Route: 2})
					ck.Try(c13Case{Pattern: m, How: d.name + " applied to " + s, Company: co, After: true})
				}
			}
		}
		if c.Stopped() {
			break
		}
	}
	c13FreshProcessPass(c, ck, bases, defects)
	c.Sample(c13Case{Pattern: bases[len(bases)/2].String(), Valid: true, How: "documented grammar"})
	c.States.Add(nValid + nInvalid + nCompany)
	c.Transitions.Add(2*nValid + nInvalid + nCompany)
	c.Set("defective_strings_in_company_of_valid_patterns", nCompany)
	// small scope
	sigma := []string{"a", "b", ".", ":", "*", "1", "0", "-", "[", "]", "/", "A", "@", "8"}
	n := vlib.Pick(c, 6, 7)
	w := vlib.NewWords(sigma, n)
	prefixes := []string{"a://", "https://", "http://"}
	var judged [3]atomic.Int64
	c.ParRange(int64(len(prefixes))*w.Count(), 256, "C13 small scope", func(i int64) {
		s := prefixes[i/w.Count()] + w.At(i%w.Count())
		v := ref.PatternVerdict(s)
		judged[v+1].Add(1)
		switch v {
		case ref.PatValid:
			c.Nontrivial.Add(1)
			ck.Try(c13Case{Pattern: s, Valid: true, How: "small-scope enumeration, reference recogniser says valid"})
		case ref.PatInvalid:
			ck.Try(c13Case{Pattern: s, How: "small-scope enumeration, reference recogniser says invalid"})
		default:
			// grey zone: only the panic oracle and NewMiddleware/ParsePattern agreement apply
			c.Evaluations.Add(1)
			_, e1 := cors.NewMiddleware(cors.Config{Origins: []string{s}, ExtraConfig: cors.ExtraConfig{DangerouslyTolerateSubdomainsOfPublicSuffixes: true}})
			_, e2 := origins.ParsePattern(s)
			if (e1 == nil) != (e2 == nil) {
				ck.Report(c13Case{Pattern: s, How: "not judged"}, vlib.Failf("NewMiddleware and ParsePattern disagree on %q", s))
			}
		}
		c.SampleAt(i+1, func() any {
			return c13Case{Pattern: s, Valid: ref.PatternVerdict(s) == ref.PatValid, How: "small scope"}
		})
	})
	// every length: scheme 1..70, one label 1..70 in first / middle / last position, total host length 1..260 with
	// and without a trailing dot and a wildcard, judged by the reference recogniser
	var lengthCases int64
	tryLen := func(s string) {
		lengthCases++
		switch ref.PatternVerdict(s) {
		case ref.PatValid:
			ck.Try(c13Case{Pattern: s, Valid: true, How: "length sweep, reference recogniser says valid"})
		case ref.PatInvalid:
			ck.Try(c13Case{Pattern: s, How: "length sweep, reference recogniser says invalid"})
		}
	}
	for n := 1; n <= 70; n++ {
		tryLen("s" + strings.Repeat("c", n-1) + "://example.com")
		tryLen("s" + strings.Repeat("c", n-1) + "://*.example.com:*")
		l := strings.Repeat("l", n)
		for _, h := range []string{l + ".example.com", "a." + l + ".com", "a.example." + l, l, "a.example." + l + ".", "*." + l + ".com", "*.a." + l} {
			tryLen("https://" + h)
			tryLen("ab://" + h + ":8080")
		}
	}
	for total := 1; total <= 260; total++ {
		// labels of 50 bytes, the last one as long as needed (1..50)
		var b strings.Builder
		for b.Len()+51 < total {
			b.WriteString(strings.Repeat("d", 50) + ".")
		}
		b.WriteString(strings.Repeat("e", total-b.Len()))
		h := b.String()
		for _, v := range []string{h, h + ".", "*." + h, "*." + h + "."} {
			tryLen("https://" + v)
			tryLen("https://" + v + ":65535")
		}
	}
	c.States.Add(lengthCases)
	c.Transitions.Add(lengthCases)
	c.Set("length_sweep_strings", lengthCases)
	// every byte value inserted at, and substituted into, every position of a few patterns (lookup tables and byte
	// classes have 256 entries; the small scope above only reaches 14 of them)
	var byteCases int64
	for _, base := range []string{"https://example.com:8080", "a+b-c.d://*.a-b.c1.d:*", "http://127.0.0.1:9", "http://[::1]:90", "https://*.example.com", "ab://x"} {
		for pos := 0; pos <= len(base); pos++ {
			for b := 0; b < 256; b++ {
				for _, s := range []string{base[:pos] + string([]byte{byte(b)}) + base[pos:], base[:pos] + string([]byte{byte(b)}) + base[min(pos+1, len(base)):]} {
					byteCases++
					switch ref.PatternVerdict(s) {
					case ref.PatValid:
						ck.Try(c13Case{Pattern: s, Valid: true, How: fmt.Sprintf("byte 0x%02x at position %d of %q, reference recogniser says valid", b, pos, base)})
					case ref.PatInvalid:
						ck.Try(c13Case{Pattern: s, How: fmt.Sprintf("byte 0x%02x at position %d of %q, reference recogniser says invalid", b, pos, base)})
					default:
						c.Evaluations.Add(1)
						func() {
							defer func() {
								if r := recover(); r != nil {
									ck.Report(c13Case{Pattern: s, How: "not judged"}, vlib.Failf("panic on %q: %v", s, r))
								}
							}()
							_, e1 := cors.NewMiddleware(cors.Config{Origins: []string{s}, ExtraConfig: cors.ExtraConfig{DangerouslyTolerateSubdomainsOfPublicSuffixes: true}})
							_, e2 := origins.ParsePattern(s)
							if (e1 == nil) != (e2 == nil) {
								ck.Report(c13Case{Pattern: s, How: "not judged"}, vlib.Failf("NewMiddleware and ParsePattern disagree on %q", s))
							}
						}()
					}
				}
			}
		}
	}
	c.States.Add(byteCases)
	c.Transitions.Add(byteCases)
	c.Set("single_byte_insertions_and_substitutions", byteCases)
	c.Set("small_scope_verdicts", map[string]int64{"not_judged": judged[0].Load(), "invalid": judged[1].Load(), "valid": judged[2].Load()})
	c.States.Add(int64(len(prefixes)) * w.Count())
	c.Transitions.Add(int64(len(prefixes)) * w.Count())
	c.Set("grammar_bases", nValid)
	c.Set("single_defect_mutations", nInvalid)
	c.Set("defect_operators", len(defects))
	c.Set("small_scope", map[string]any{"prefixes": prefixes, "sigma": sigma, "max_len": n, "strings": int64(len(prefixes)) * w.Count()})
	return levelMC, rule
}

// c13FreshProcessPass: every base pattern and every defective string (UTF-8 ones: cases travel as JSON) as the
// first pattern a newly started process ever validates; then all of them are judged in that process.
func c13FreshProcessPass(c *vlib.Ctx, ck *Checker[c13Case], bases []c13Base, defects []c13Defect) {
	var battery []c13Case
	seen := map[string]bool{}
	add := func(k c13Case) {
		if utf8.ValidString(k.Pattern) && !seen[k.Pattern] {
			seen[k.Pattern] = true
			battery = append(battery, k)
		}
	}
	// every base pattern; the defects of every stride-th base, the stride chosen so that the battery stays near
	// 1500 [4000] strings (each base has the same operators applied, so the operators are all represented)
	want := vlib.Pick(c, 1500, 4000)
	perBase := 0
	for _, d := range defects {
		if _, ok := d.f(bases[0]); ok {
			perBase++
		}
	}
	stride := 1 + len(bases)*perBase/want
	for bi, b := range bases {
		add(c13Case{Pattern: b.String(), Valid: true, How: "documented grammar"})
		if bi%stride != 0 {
			continue
		}
		for _, d := range defects {
			if m, ok := d.f(b); ok && len(m) < 400 {
				add(c13Case{Pattern: m, How: d.name + " applied to " + b.String()})
			}
		}
	}
	var firsts []string
	for i := range battery {
		firsts = append(firsts, battery[i].Pattern)
	}
	c.ParRange(int64(len(firsts)), 1, "C13 fresh processes", func(i int64) {
		seq := append([]c13Case(nil), battery...)
		seq[0].Earlier = []string{firsts[i]}
		c.States.Add(1)
		c.Transitions.Add(int64(len(seq)))
		c.Evaluations.Add(int64(len(seq)))
		fails := inFreshProcess("C13", seq)
		for j := range seq {
			d, bad := fails[j]
			if !bad {
				continue
			}
			k := seq[j]
			k.Earlier = []string{firsts[i]}
			if ck.Judge(k) == nil {
				for _, e := range seq[:j] {
					k.Earlier = append(k.Earlier, e.Pattern)
				}
			}
			ck.Report(k, vlib.Failf("%s", afterNote(len(k.Earlier), d)))
			break
		}
	})
	c.Set("fresh_process_histories", map[string]int{"first_validations": len(firsts), "patterns_judged_afterwards_each": len(battery)})
}

func init() {
	registry["C13"] = checkC13
	childJudges["C13"] = func(raw json.RawMessage) *vlib.Failure {
		var k c13Case
		if err := json.Unmarshal(raw, &k); err != nil {
			vlib.HarnessError("fresh-process child: cannot decode case: %v", err)
		}
		return c13Judge(k)
	}
}
