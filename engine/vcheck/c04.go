package main

import (
	"encoding/json"
	"fmt"
	"math"
	"reflect"
	"sort"
	"strings"

	"github.com/jub0bs/cors"
	"github.com/jub0bs/cors/cfgerrors"
	"github.com/jub0bs/cors/internal/zzverif/ref"
	"github.com/jub0bs/cors/internal/zzverif/vlib"
)

// C04 — no insecure or out-of-range configuration is ever accepted (soundness of validation).
// C05 — every valid configuration is accepted; every violation is reported, typed, with the value.
// Both share one generator of configurations built from labelled atoms; the oracles differ.

type c04Case struct {
	Cfg CfgLit `json:"config"`
	// indices into the atom tables, so that the labels travel with the witness
	O, M, Q, R []int  `json:",omitempty"`
	Via        string `json:"via"` // "new" | "reconfigure-zero" | "reconfigure-configured" | "reconfigure-same-origins"
	// Shape 1: the lists are windows of one backing array with spare capacity and unused lists are empty but non-nil
	Shape int `json:"slice_shape,omitempty"`
	// After: the process has just started and has validated these configurations, in this order, before this one
	// (see "fresh processes" in main.go)
	After []c04Case `json:"earlier_in_a_fresh_process,omitempty"`
}

// c04InFresh judges a case that comes with a process history: history and case go to a freshly started process.
func c04InFresh(prop string, k c04Case) *vlib.Failure {
	seq := append(append([]c04Case(nil), k.After...), k)
	seq[len(seq)-1].After = nil
	if d, bad := inFreshProcess(prop, seq)[len(seq)-1]; bad {
		return vlib.Failf("%s", afterNote(len(k.After), d))
	}
	return nil
}

// c04Respellings lists the configurations whose strings, concatenated list after list, give the same text as l's:
// one element split at one position, two neighbouring elements merged, the last element of a list moved to the front
// of the next list or the first element of a list moved to the end of the previous one. The scalars are l's.
func c04Respellings(l CfgLit) []CfgLit {
	get := func(c *CfgLit) []*[]string {
		return []*[]string{&c.Origins, &c.Methods, &c.RequestHeaders, &c.ResponseHeaders}
	}
	clone := func() CfgLit {
		c := l
		for _, p := range get(&c) {
			*p = append([]string(nil), *p...)
		}
		return c
	}
	var out []CfgLit
	for li := 0; li < 4; li++ {
		src := *get(&l)[li]
		for j, e := range src {
			for _, p := range []int{1, len(e) / 2, len(e) - 1} {
				if p <= 0 || p >= len(e) {
					continue
				}
				c := clone()
				lst := get(&c)[li]
				*lst = append(append(append([]string(nil), src[:j]...), e[:p], e[p:]), src[j+1:]...)
				out = append(out, c)
			}
			if j+1 < len(src) {
				c := clone()
				lst := get(&c)[li]
				*lst = append(append(append([]string(nil), src[:j]...), e+src[j+1]), src[j+2:]...)
				out = append(out, c)
			}
		}
		if li+1 < 4 {
			next := *get(&l)[li+1]
			if len(src) > 0 {
				c := clone()
				ps := get(&c)
				*ps[li], *ps[li+1] = append([]string(nil), src[:len(src)-1]...), append([]string{src[len(src)-1]}, next...)
				out = append(out, c)
			}
			if len(next) > 0 {
				c := clone()
				ps := get(&c)
				*ps[li], *ps[li+1] = append(append([]string(nil), src...), next[0]), append([]string(nil), next[1:]...)
				out = append(out, c)
			}
		}
	}
	return out
}

// c04Battery: every atom of every table alone in its list (the other lists minimal and valid), through NewMiddleware.
func c04Battery() []c04Case {
	var out []c04Case
	for i := range c04OA {
		out = append(out, c04Make(ref.Switches{}, []int{i}, nil, nil, nil, 0, 0, "new"))
	}
	for i := range c04MA {
		out = append(out, c04Make(ref.Switches{}, []int{0}, []int{i}, nil, nil, 0, 0, "new"))
	}
	for i := range c04QA {
		out = append(out, c04Make(ref.Switches{}, []int{0}, nil, []int{i}, nil, 0, 0, "new"))
	}
	for i := range c04RA {
		out = append(out, c04Make(ref.Switches{}, []int{0}, nil, nil, []int{i}, 0, 0, "new"))
	}
	return out
}

// c04FreshProcessPass: for every case of the battery as the first validation of a process, the whole battery
// afterwards in that process. A failure is reduced to (first, failing case) if that pair fails on its own in
// another fresh process, and is otherwise kept with its whole history.
func c04FreshProcessPass(c *vlib.Ctx, ck *Checker[c04Case], prop string) {
	bat := c04Battery()
	firsts := bat
	c.ParRange(int64(len(firsts)), 1, prop+" fresh processes", func(i int64) {
		seq := append([]c04Case{firsts[i]}, bat...)
		c.States.Add(1)
		c.Transitions.Add(int64(len(seq)))
		c.Evaluations.Add(int64(len(seq)))
		fails := inFreshProcess(prop, seq)
		for j := 1; j < len(seq); j++ {
			d, bad := fails[j]
			if !bad {
				continue
			}
			k := seq[j]
			k.After = []c04Case{firsts[i]}
			if ck.Judge(k) == nil {
				k.After = append([]c04Case(nil), seq[:j]...)
			}
			ck.Report(k, vlib.Failf("%s", afterNote(len(k.After), d)))
			break
		}
	})
	c.Set("fresh_process_histories", map[string]int{"first_validations": len(firsts), "validations_afterwards_each": len(bat)})
}

var (
	c04OA = ref.OriginAtoms()
	// the hand-picked atoms first (the products refer to them by index), then the full tables (reached by the
	// single-atom and long-list families)
	c04MA = append(ref.MethodAtoms(), ref.MethodTable()...)
	c04QA = append(ref.RequestHeaderAtoms(), ref.RequestHeaderTable()...)
	c04RA = append(ref.ResponseHeaderAtoms(), ref.ResponseHeaderTable()...)
)

func c04Atom(k c04Case) ref.AtomConfig {
	a := ref.AtomConfig{MaxAge: k.Cfg.MaxAge, Status: k.Cfg.Status,
		Switches: ref.Switches{Credentialed: k.Cfg.Credentialed, PNA: k.Cfg.PNA, PNANoCORS: k.Cfg.PNANoCORS, TolInsecure: k.Cfg.TolInsecure, TolPSL: k.Cfg.TolPSL}}
	for _, i := range k.O {
		a.Origins = append(a.Origins, c04OA[i])
	}
	for _, i := range k.M {
		a.Methods = append(a.Methods, c04MA[i])
	}
	for _, i := range k.Q {
		a.RequestHeaders = append(a.RequestHeaders, c04QA[i])
	}
	for _, i := range k.R {
		a.ResponseHeaders = append(a.ResponseHeaders, c04RA[i])
	}
	return a
}

func c04Make(sw ref.Switches, o, m, q, r []int, maxAge, status int, via string) c04Case {
	k := c04Case{O: o, M: m, Q: q, R: r, Via: via}
	k.Cfg = CfgLit{Credentialed: sw.Credentialed, PNA: sw.PNA, PNANoCORS: sw.PNANoCORS, TolInsecure: sw.TolInsecure, TolPSL: sw.TolPSL, MaxAge: maxAge, Status: status}
	for _, i := range o {
		k.Cfg.Origins = append(k.Cfg.Origins, c04OA[i].Value)
	}
	for _, i := range m {
		k.Cfg.Methods = append(k.Cfg.Methods, c04MA[i].Value)
	}
	for _, i := range q {
		k.Cfg.RequestHeaders = append(k.Cfg.RequestHeaders, c04QA[i].Value)
	}
	for _, i := range r {
		k.Cfg.ResponseHeaders = append(k.Cfg.ResponseHeaders, c04RA[i].Value)
	}
	return k
}

// c04Run calls the constructor named by Via.
func c04Run(k c04Case) (m *cors.Middleware, err error, f *vlib.Failure) {
	// a witness that went through JSON (replay file, fresh-process child) cannot carry bytes that are not UTF-8; the
	// indices can, so the values are restored from the atom tables
	for i, x := range k.O {
		if i < len(k.Cfg.Origins) && k.Cfg.Origins[i] != c04OA[x].Value {
			k.Cfg.Origins[i] = c04OA[x].Value
		}
	}
	for i, x := range k.M {
		if i < len(k.Cfg.Methods) && k.Cfg.Methods[i] != c04MA[x].Value {
			k.Cfg.Methods[i] = c04MA[x].Value
		}
	}
	for i, x := range k.Q {
		if i < len(k.Cfg.RequestHeaders) && k.Cfg.RequestHeaders[i] != c04QA[x].Value {
			k.Cfg.RequestHeaders[i] = c04QA[x].Value
		}
	}
	for i, x := range k.R {
		if i < len(k.Cfg.ResponseHeaders) && k.Cfg.ResponseHeaders[i] != c04RA[x].Value {
			k.Cfg.ResponseHeaders[i] = c04RA[x].Value
		}
	}
	cfg := k.Cfg.Config()
	if k.Shape == 1 {
		cfg = k.Cfg.ConfigAlt()
	}
	switch k.Via {
	case "new":
		m, err = cors.NewMiddleware(cfg)
		if err != nil && m != nil {
			return m, err, vlib.Failf("NewMiddleware returned a non-nil error together with a non-nil *Middleware")
		}
		if err == nil && m == nil {
			return m, err, vlib.Failf("NewMiddleware returned nil, nil")
		}
	case "reconfigure-zero":
		m = new(cors.Middleware)
		err = m.Reconfigure(&cfg)
	case "reconfigure-configured":
		m, err = cors.NewMiddleware(cors.Config{Origins: []string{"https://other.example"}})
		if err != nil {
			return nil, nil, vlib.Failf("baseline configuration rejected: %v", err)
		}
		err = m.Reconfigure(&cfg)
	case "reconfigure-debug":
		m, err = cors.NewMiddleware(cors.Config{Origins: []string{"https://other.example"}, RequestHeaders: []string{"X-A"}})
		if err != nil {
			return nil, nil, vlib.Failf("baseline configuration rejected: %v", err)
		}
		m.SetDebug(true)
		err = m.Reconfigure(&cfg)
	case "reconfigure-same-origins":
		// the middleware is first configured with the same Origins list under the most permissive switches (if
		// that is acceptable) and then reconfigured: only the switches / other fields change
		first := cors.Config{Origins: append([]string(nil), cfg.Origins...)}
		first.DangerouslyTolerateInsecureOrigins, first.DangerouslyTolerateSubdomainsOfPublicSuffixes = true, true
		var e0 error
		m, e0 = cors.NewMiddleware(first)
		if e0 != nil {
			m = new(cors.Middleware)
		}
		err = m.Reconfigure(&cfg)
	case "reconfigure-respelled":
		// the middleware first holds, in turn, every accepted configuration whose strings, read one after the other,
		// spell the same text: an element split in two, two neighbours merged, an element moved across the border
		// between two lists. Whatever it held, the verdict on cfg is that of a fresh NewMiddleware.
		_, fresh := cors.NewMiddleware(k.Cfg.Config())
		for _, alt := range c04Respellings(k.Cfg) {
			m0, e0 := cors.NewMiddleware(alt.Config())
			if e0 != nil {
				continue
			}
			c := k.Cfg.Config()
			if e := m0.Reconfigure(&c); (e == nil) != (fresh == nil) {
				return m0, e, vlib.Failf("a middleware that holds %s says err=%v when reconfigured with %s; NewMiddleware on the same value says err=%v", alt.GoLiteral(), e, k.Cfg.GoLiteral(), fresh)
			}
		}
		m, err = cors.NewMiddleware(cfg)
	case "reconfigure-edited-config-result":
		// the middleware holds placeholders of the same shape; its own Config() result is overwritten in place with the
		// values of cfg (lists are re-sliced only where the normal form has another length) and handed to Reconfigure
		ph := k.Cfg
		fill := func(n int, format string) []string {
			out := make([]string, n)
			for i := range out {
				out[i] = fmt.Sprintf(format, i)
			}
			return out
		}
		ph.Origins, ph.Methods = fill(len(k.Cfg.Origins), "https://placeholder%d.example"), fill(len(k.Cfg.Methods), "PLACEHOLDER%d")
		ph.RequestHeaders, ph.ResponseHeaders = fill(len(k.Cfg.RequestHeaders), "X-Placeholder-%d"), fill(len(k.Cfg.ResponseHeaders), "X-Placeholder-R-%d")
		ph.Credentialed, ph.PNA, ph.PNANoCORS, ph.MaxAge, ph.Status = false, false, false, 0, 0
		m0, e0 := cors.NewMiddleware(ph.Config())
		if e0 != nil {
			m, err = cors.NewMiddleware(cfg)
			break
		}
		cur := m0.Config()
		over := func(dst *[]string, src []string) {
			if len(*dst) != len(src) {
				*dst = append((*dst)[:0], src...)
				return
			}
			copy(*dst, src)
		}
		over(&cur.Origins, cfg.Origins)
		over(&cur.Methods, cfg.Methods)
		over(&cur.RequestHeaders, cfg.RequestHeaders)
		over(&cur.ResponseHeaders, cfg.ResponseHeaders)
		cur.Credentialed, cur.MaxAgeInSeconds, cur.ExtraConfig = cfg.Credentialed, cfg.MaxAgeInSeconds, cfg.ExtraConfig
		m, err = m0, m0.Reconfigure(cur)
	default:
		// "reconfigure-neighbour-<i>": the middleware is first given the same configuration with exactly one scalar
		// field changed (if that neighbour is acceptable; otherwise it stays a zero value), then reconfigured.
		// "reconfigure-normalised-neighbour-<i>": the same, but what is passed to Reconfigure is the neighbour's own
		// Config() result with that one field set back (the lists are then in the middleware's normal form).
		var i int
		normalised := strings.HasPrefix(k.Via, "reconfigure-normalised-")
		if _, e := fmt.Sscanf(strings.Replace(k.Via, "normalised-", "", 1), "reconfigure-neighbour-%d", &i); e != nil {
			return nil, nil, vlib.Failf("bad case")
		}
		first := k.Cfg
		switch i {
		case 0:
			first.Credentialed = !first.Credentialed
		case 1:
			first.PNA = !first.PNA
		case 2:
			first.PNANoCORS = !first.PNANoCORS
		case 3:
			first.TolInsecure = !first.TolInsecure
		case 4:
			first.TolPSL = !first.TolPSL
		case 5:
			if first.MaxAge = 0; k.Cfg.MaxAge == 0 {
				first.MaxAge = 600
			}
		case 6:
			if first.Status = 0; k.Cfg.Status == 0 || k.Cfg.Status == 204 {
				first.Status = 299
			}
		}
		var e0 error
		if m, e0 = cors.NewMiddleware(first.Config()); e0 != nil {
			m = new(cors.Middleware)
		}
		m.SetDebug(i%2 == 1)
		if cur := m.Config(); normalised && cur != nil {
			cur.Credentialed, cur.MaxAgeInSeconds = cfg.Credentialed, cfg.MaxAgeInSeconds
			cur.ExtraConfig = cfg.ExtraConfig
			cfg = *cur
		}
		err = m.Reconfigure(&cfg)
		if normalised {
			// the normal form may have merged or dropped patterns (e.g. everything next to *), so the labelled atoms no
			// longer describe what was passed: the oracle on this route is a fresh NewMiddleware on the same value
			if _, fresh := cors.NewMiddleware(cfg); (fresh == nil) != (err == nil) {
				return m, err, vlib.Failf("Reconfigure on a middleware configured with a one-field neighbour says err=%v for %+v; NewMiddleware on the same value says err=%v", err, cfg, fresh)
			}
		}
	}
	return m, err, nil
}

func c04Judge(k c04Case) *vlib.Failure {
	if len(k.After) > 0 {
		return c04InFresh("C04", k)
	}
	want := ref.Validate(c04Atom(k))
	_, err, f := c04Run(k)
	if f != nil {
		return f
	}
	if strings.HasPrefix(k.Via, "reconfigure-normalised-") {
		return nil // judged inside c04Run against a fresh NewMiddleware
	}
	if err == nil && len(want) > 0 {
		return vlib.Failf("%s accepted %s although the documentation prohibits it: %+v", k.Via, k.Cfg.GoLiteral(), want)
	}
	return nil
}

type c05Got struct {
	Type, Value, Reason, Kind string
	Int                       int
	ok                        bool
}

func c05Describe(e error) (c05Got, *vlib.Failure) {
	if e == nil {
		return c05Got{}, vlib.Failf("cfgerrors.All yielded a nil error")
	}
	rv := reflect.ValueOf(e)
	if rv.Kind() != reflect.Pointer || rv.IsNil() {
		return c05Got{}, vlib.Failf("error %T is not a non-nil pointer to an exported cfgerrors type", e)
	}
	if !strings.HasPrefix(e.Error(), "cors: ") {
		return c05Got{}, vlib.Failf("message %q does not start with \"cors: \"", e.Error())
	}
	switch x := e.(type) {
	case *cfgerrors.UnacceptableOriginPatternError:
		return c05Got{Type: "UnacceptableOriginPatternError", Value: x.Value, Reason: x.Reason}, nil
	case *cfgerrors.UnacceptableMethodError:
		return c05Got{Type: "UnacceptableMethodError", Value: x.Value, Reason: x.Reason}, nil
	case *cfgerrors.UnacceptableHeaderNameError:
		return c05Got{Type: "UnacceptableHeaderNameError", Value: x.Value, Reason: x.Reason, Kind: x.Type}, nil
	case *cfgerrors.MaxAgeOutOfBoundsError:
		if x.Default != 5 || x.Max != 86400 || x.Disable != -1 {
			return c05Got{}, vlib.Failf("MaxAgeOutOfBoundsError carries bounds %+v, documented: default 5, max 86400, disable -1", *x)
		}
		return c05Got{Type: "MaxAgeOutOfBoundsError", Int: x.Value}, nil
	case *cfgerrors.PreflightSuccessStatusOutOfBoundsError:
		if x.Default != 204 || x.Min != 200 || x.Max != 299 {
			return c05Got{}, vlib.Failf("PreflightSuccessStatusOutOfBoundsError carries bounds %+v, documented: default 204, min 200, max 299", *x)
		}
		return c05Got{Type: "PreflightSuccessStatusOutOfBoundsError", Int: x.Value}, nil
	case *cfgerrors.IncompatibleOriginPatternError:
		return c05Got{Type: "IncompatibleOriginPatternError", Value: x.Value, Reason: x.Reason}, nil
	case *cfgerrors.IncompatiblePrivateNetworkAccessModesError:
		return c05Got{Type: "IncompatiblePrivateNetworkAccessModesError"}, nil
	case *cfgerrors.IncompatibleWildcardResponseHeaderNameError:
		return c05Got{Type: "IncompatibleWildcardResponseHeaderNameError"}, nil
	}
	return c05Got{}, vlib.Failf("error of type %T is not one of the exported cfgerrors types", e)
}

func c05Match(w ref.Want, g c05Got) bool {
	if w.Type != g.Type || w.Value != g.Value || w.Kind != g.Kind || w.Int != g.Int {
		return false
	}
	if w.Reason == "invalid|prohibited" {
		return g.Reason == "invalid" || g.Reason == "prohibited"
	}
	return w.Reason == g.Reason
}

// c05OtherInvalid is wrong in every field, with offending values that occur nowhere else in the alphabets.
var c05OtherInvalid = cors.Config{Origins: []string{"https://other.invalid/path", "null"}, Credentialed: true, Methods: []string{"other method"}, RequestHeaders: []string{"Other Name", "Cookie2"},
	ResponseHeaders: []string{"Set-Cookie2", "*"}, MaxAgeInSeconds: -77, ExtraConfig: cors.ExtraConfig{PreflightSuccessStatus: 777, PrivateNetworkAccess: true, PrivateNetworkAccessInNoCORSModeOnly: true}}

func c05Judge(k c04Case) *vlib.Failure {
	if len(k.After) > 0 {
		return c04InFresh("C05", k)
	}
	want := ref.Validate(c04Atom(k))
	_, err, f := c04Run(k)
	if f != nil {
		return f
	}
	if strings.HasPrefix(k.Via, "reconfigure-normalised-") {
		// judged inside c04Run against a fresh NewMiddleware; here only the typing of the reported errors
		for e := range cfgerrors.All(err) {
			if err == nil {
				break
			}
			if _, f := c05Describe(e); f != nil {
				return f
			}
		}
		return nil
	}
	if len(want) == 0 {
		if err != nil {
			return vlib.Failf("%s rejected %s, which uses documented-permitted settings only: %v", k.Via, k.Cfg.GoLiteral(), err)
		}
		return nil
	}
	if err == nil {
		return vlib.Failf("%s reports nothing for %s, which contains %d violation(s): %+v", k.Via, k.Cfg.GoLiteral(), len(want), want)
	}
	msg0 := err.Error() // before any traversal
	var got []c05Got
	var leaves []error
	for e := range cfgerrors.All(err) {
		g, f := c05Describe(e)
		if f != nil {
			return f
		}
		got = append(got, g)
		leaves = append(leaves, e)
	}
	// traversing an error is an observation: a second traversal yields the same leaves in the same order and the
	// message is what it was before
	i2 := 0
	for e := range cfgerrors.All(err) {
		if i2 >= len(leaves) || e != leaves[i2] {
			return vlib.Failf("the second traversal of the error returned for %s differs from the first at position %d (first: %d leaves)", k.Cfg.GoLiteral(), i2, len(leaves))
		}
		i2++
	}
	if i2 != len(leaves) {
		return vlib.Failf("the second traversal of the error returned for %s yields %d leaves, the first yielded %d", k.Cfg.GoLiteral(), i2, len(leaves))
	}
	if m := err.Error(); m != msg0 {
		return vlib.Failf("traversing the error returned for %s changed its message: %q, then %q", k.Cfg.GoLiteral(), msg0, m)
	}
	// error values are values: another failing validation (of a configuration that is wrong in every field, with other
	// offending values) must not change what the errors of this one say
	before := err.Error()
	_, _ = cors.NewMiddleware(c05OtherInvalid)
	other := c05OtherInvalid
	_ = new(cors.Middleware).Reconfigure(&other)
	for i, e := range leaves {
		if g, _ := c05Describe(e); g != got[i] {
			return vlib.Failf("an error returned for %s said %+v; after an unrelated failing NewMiddleware / Reconfigure the same error value says %+v", k.Cfg.GoLiteral(), got[i], g)
		}
	}
	if after := err.Error(); after != before {
		return vlib.Failf("the message of the error returned for %s changed after an unrelated failing validation: %q, then %q", k.Cfg.GoLiteral(), before, after)
	}
	for _, w := range want {
		found := false
		for i := range got {
			if c05Match(w, got[i]) {
				got[i].ok = true
				found = true
			}
		}
		if !found {
			return vlib.Failf("%s on %s: violation %+v is not reported (reported: %v)", k.Via, k.Cfg.GoLiteral(), w, err)
		}
	}
	for _, g := range got {
		if !g.ok {
			return vlib.Failf("%s on %s: reported error %+v corresponds to no violation (expected: %+v)", k.Via, k.Cfg.GoLiteral(), g, want)
		}
	}
	// the errors now belong to the caller, exported fields included (a portal redacts or translates them): the same
	// configuration, validated again, is described as it was the first time
	for _, e := range leaves {
		if v := reflect.ValueOf(e); v.Kind() == reflect.Pointer && v.Elem().Kind() == reflect.Struct {
			for i := 0; i < v.Elem().NumField(); i++ {
				switch f := v.Elem().Field(i); {
				case !f.CanSet():
				case f.Kind() == reflect.String:
					f.SetString("overwritten-by-the-caller")
				case f.CanInt():
					f.SetInt(-7)
				}
			}
		}
	}
	_, err2, f := c04Run(k)
	if f != nil {
		return f
	}
	var again []c05Got
	for e := range cfgerrors.All(err2) {
		if err2 == nil {
			break
		}
		g, f := c05Describe(e)
		if f != nil {
			return f
		}
		again = append(again, g)
	}
	if len(again) != len(got) {
		return vlib.Failf("%s on %s reported %d errors; after the caller overwrote the exported fields of those error values, the same call reports %d", k.Via, k.Cfg.GoLiteral(), len(got), len(again))
	}
	// (as multisets: the order of the errors is unspecified)
	key := func(g c05Got) string { g.ok = false; return fmt.Sprintf("%+v", g) }
	count := map[string]int{}
	for _, g := range got {
		count[key(g)]++
	}
	for _, g := range again {
		if count[key(g)]--; count[key(g)] < 0 {
			return vlib.Failf("%s on %s: after the caller overwrote the exported fields of the error values it had received, the same call reports %+v, which the first call did not report (first: %+v)", k.Via, k.Cfg.GoLiteral(), g, got)
		}
	}
	return nil
}

func c04Test(name string) func(k c04Case) string {
	return func(k c04Case) string {
		after := ""
		for _, a := range k.After {
			after += "\n\tcors.NewMiddleware(" + a.Cfg.GoLiteral() + ") // earlier in the same process; run this test alone (go test -run), nothing before it"
		}
		return fmt.Sprintf(`package cors_test

import ("testing"; "github.com/jub0bs/cors"; "github.com/jub0bs/cors/cfgerrors")

// Violations the documentation promises for this configuration: %+v
func Test%sReplay(t *testing.T) {%s
	_, err := cors.NewMiddleware(%s) // constructor used by the witness: %s
	t.Logf("err = %%v", err)
	for e := range cfgerrors.All(err) { t.Logf("  %%T %%+v", e, e) }
}
`, ref.Validate(c04Atom(k)), name, after, k.Cfg.GoLiteral(), k.Via)
	}
}

func idxLists(n, maxLen int) [][]int {
	w := vlib.NewWords(make([]string, n), maxLen)
	out := make([][]int, 0, w.Count())
	var tmp [8]int
	for i := int64(0); i < w.Count(); i++ {
		out = append(out, append([]int(nil), w.Syms(i, tmp[:0])...))
	}
	return out
}

func allSwitches() []ref.Switches {
	var out []ref.Switches
	for m := 0; m < 32; m++ {
		out = append(out, ref.Switches{Credentialed: m&1 != 0, PNA: m&2 != 0, PNANoCORS: m&4 != 0, TolInsecure: m&8 != 0, TolPSL: m&16 != 0})
	}
	return out
}

// c04Explore drives the shared generator; try is called for every configuration.
func c04Explore(c *vlib.Ctx, try0 func(k c04Case)) {
	try := func(k c04Case) {
		// both slice shapes, chosen by a deterministic mix of the case's own content
		h := uint32(len(k.Via))*31 + uint32(k.Cfg.MaxAge)*7 + uint32(k.Cfg.Status)*13
		for _, l := range [][]int{k.O, k.M, k.Q, k.R} {
			h = h*131 + uint32(len(l))
			for _, x := range l {
				h = h*131 + uint32(x)
			}
		}
		for _, b := range []bool{k.Cfg.Credentialed, k.Cfg.PNA, k.Cfg.PNANoCORS, k.Cfg.TolInsecure, k.Cfg.TolPSL} {
			h *= 3
			if b {
				h++
			}
		}
		k.Shape = int(h>>7) & 1
		try0(k)
	}
	sws := allSwitches()
	vias := []string{"new", "reconfigure-zero", "reconfigure-configured", "reconfigure-same-origins", "reconfigure-debug",
		"reconfigure-neighbour-0", "reconfigure-neighbour-1", "reconfigure-neighbour-2", "reconfigure-neighbour-3", "reconfigure-neighbour-4", "reconfigure-neighbour-5", "reconfigure-neighbour-6",
		"reconfigure-normalised-neighbour-0", "reconfigure-normalised-neighbour-1", "reconfigure-normalised-neighbour-2", "reconfigure-normalised-neighbour-3", "reconfigure-normalised-neighbour-4", "reconfigure-normalised-neighbour-5", "reconfigure-normalised-neighbour-6",
		"reconfigure-respelled", "reconfigure-edited-config-result"}
	// P1: all 32 switch combinations x all origin lists of length <= L, other fields valid
	L := vlib.Pick(c, 2, 3)
	ol := idxLists(len(c04OA), L)
	if c.Thorough() {
		// length-3 lists: every position gets every atom, but the third position is restricted to the
		// first 30 atoms (all valid ones plus the first malformed ones) to keep 32 x 86^3 in bounds
		var f [][]int
		for _, l := range ol {
			if len(l) < 3 || l[2] < 30 {
				f = append(f, l)
			}
		}
		ol = f
	}
	p1 := vlib.Product{Sizes: []int{len(sws), len(ol)}}
	c.ParRange(p1.Count(), 64, "C04/C05 origin lists", func(i int64) {
		var tmp [4]int
		ix := p1.At(i, tmp[:0])
		via := "new"
		if !c.Thorough() || len(ol[ix[1]]) <= 2 {
			via = vias[int(i)%len(vias)]
		}
		k := c04Make(sws[ix[0]], ol[ix[1]], []int{0}, []int{0}, []int{0}, 30, 0, via)
		try(k)
		c.SampleAt(i+1, func() any { return k })
	})
	c.States.Add(p1.Count())
	// P2: all 32 switch combinations x per-field choices for every field simultaneously x integer alphabets
	oc := [][]int{{}, {0}, {0, 1, 3}, {5}, {4}, {16}, {26}, {0, 26, 27}, {4, 40}, {5, 20, 12}}
	mc := [][]int{nil, {0}, {2, 3}, {4}, {7}, {11, 9}, {0, 12}, {4, 10}, {13, 0, 8}}
	qc := [][]int{nil, {0}, {3, 2}, {2, 4}, {6}, {13, 16}, {0, 17}, {2, 9}, {14, 10, 5}}
	rc := [][]int{nil, {0}, {3, 1}, {2}, {5}, {7, 11}, {0, 12}, {2, 6}, {13, 9, 4}}
	ages, sts := ref.MaxAges(), ref.Statuses()
	if !c.Thorough() {
		ages = []int{0, -1, 86400, -2, 86401, math.MaxInt, math.MinInt, 600}
		sts = []int{0, 200, 299, 199, 300, math.MaxInt, 1<<32 + 204, 250, 456}
	}
	p2 := vlib.Product{Sizes: []int{len(sws), len(oc), len(mc), len(qc), len(rc), len(ages), len(sts)}}
	c.ParRange(p2.Count(), 64, "C04/C05 field products", func(i int64) {
		var tmp [8]int
		ix := p2.At(i, tmp[:0])
		k := c04Make(sws[ix[0]], oc[ix[1]], mc[ix[2]], qc[ix[3]], rc[ix[4]], ages[ix[5]], sts[ix[6]], vias[int(i)%len(vias)])
		try(k)
	})
	c.States.Add(p2.Count())
	// P3: every single atom of every field alone, in first / last position, under all switches
	type fa struct{ field, idx int }
	var singles []fa
	for i := range c04MA {
		singles = append(singles, fa{1, i})
	}
	for i := range c04QA {
		singles = append(singles, fa{2, i})
	}
	for i := range c04RA {
		singles = append(singles, fa{3, i})
	}
	p3 := vlib.Product{Sizes: []int{len(sws), len(singles), 3, len(vias)}}
	c.ParRange(p3.Count(), 64, "C04/C05 single atoms", func(i int64) {
		var tmp [4]int
		ix := p3.At(i, tmp[:0])
		s := singles[ix[1]]
		lst := [][]int{{s.idx}, {0, s.idx}, {s.idx, 0, s.idx}}[ix[2]]
		m, q, r := []int{0}, []int{0}, []int{0}
		switch s.field {
		case 1:
			m = lst
		case 2:
			q = lst
		case 3:
			r = lst
		}
		try(c04Make(sws[ix[0]], []int{0}, m, q, r, 0, 0, vias[ix[3]]))
	})
	c.States.Add(p3.Count())
	// P4: long lists: five valid atoms with every atom of the field inserted at every position, all switches
	type la struct{ field, idx, pos int }
	var longs []la
	for f, n := range []int{len(c04OA), len(c04MA), len(c04QA), len(c04RA)} {
		for i := 0; i < n; i++ {
			for pos := 0; pos <= 5; pos++ {
				longs = append(longs, la{f, i, pos})
			}
		}
	}
	validO, validM, validQ, validR := []int{0, 1, 2, 3, 21}, []int{0, 1, 2, 5, 6}, []int{0, 1, 3, 5, 1}, []int{0, 1, 3, 4, 0}
	p4 := vlib.Product{Sizes: []int{len(sws), len(longs)}}
	c.ParRange(p4.Count(), 64, "C04/C05 long lists", func(i int64) {
		var tmp [4]int
		ix := p4.At(i, tmp[:0])
		l := longs[ix[1]]
		ins := func(base []int) []int {
			out := append([]int{}, base[:l.pos]...)
			out = append(out, l.idx)
			return append(out, base[l.pos:]...)
		}
		o, m, q, r := validO, validM, validQ, validR
		switch l.field {
		case 0:
			o = ins(validO)
		case 1:
			m = ins(validM)
		case 2:
			q = ins(validQ)
		case 3:
			r = ins(validR)
		}
		try(c04Make(sws[ix[0]], o, m, q, r, 600, 201, vias[int(i)%len(vias)]))
	})
	c.States.Add(p4.Count())
	// P6: one name listed in all three name lists at once: each field is judged by its own rules, none masks another
	byValue := func(atoms []ref.NameAtom) map[string]int {
		m := map[string]int{}
		for i, a := range atoms {
			if _, dup := m[a.Value]; !dup {
				m[a.Value] = i
			}
		}
		return m
	}
	mIdx, qIdx, rIdx := byValue(c04MA), byValue(c04QA), byValue(c04RA)
	var shared [][3]int
	for v, qi := range qIdx {
		ri, inR := rIdx[v]
		mi, inM := mIdx[v]
		if inR {
			if !inM {
				mi = 0
			}
			shared = append(shared, [3]int{mi, qi, ri})
		}
	}
	sort.Slice(shared, func(a, b int) bool { return shared[a][1] < shared[b][1] })
	p6 := vlib.Product{Sizes: []int{len(sws), len(shared), 2}}
	c.ParRange(p6.Count(), 64, "C04/C05 one name in several lists", func(i int64) {
		var tmp [4]int
		ix := p6.At(i, tmp[:0])
		s := shared[ix[1]]
		q, r := []int{s[1]}, []int{s[2]}
		if ix[2] == 1 {
			q, r = []int{0, s[1]}, []int{s[2], 0}
		}
		try(c04Make(sws[ix[0]], []int{0}, []int{s[0]}, q, r, 0, 0, vias[int(i)%len(vias)]))
	})
	c.States.Add(p6.Count())
	// P8: `*` in the company of every other atom of its list (before it, after it, around it): a name that sorts
	// before `*` (! # $ % & ') or after it, a second `*`, a defective name - each is judged by its own rule
	type wc struct{ field, idx, shape int }
	var wcs []wc
	starOf := func(atoms []ref.NameAtom) int {
		for i, a := range atoms {
			if a.Star {
				return i
			}
		}
		return -1
	}
	stars := [4]int{-1, starOf(c04MA), starOf(c04QA), starOf(c04RA)}
	for f, n := range []int{0, len(c04MA), len(c04QA), len(c04RA)} {
		for i := 0; i < n && stars[f] >= 0; i++ {
			for sh := 0; sh < 3; sh++ {
				wcs = append(wcs, wc{f, i, sh})
			}
		}
	}
	p8 := vlib.Product{Sizes: []int{len(sws), len(wcs)}}
	c.ParRange(p8.Count(), 64, "C04/C05 wildcard companions", func(i int64) {
		var tmp [4]int
		ix := p8.At(i, tmp[:0])
		w := wcs[ix[1]]
		st := stars[w.field]
		lst := [][]int{{st, w.idx}, {w.idx, st}, {w.idx, st, st, w.idx}}[w.shape]
		m, q, r := []int{0}, []int{0}, []int{0}
		switch w.field {
		case 1:
			m = lst
		case 2:
			q = lst
		case 3:
			r = lst
		}
		try(c04Make(sws[ix[0]], []int{0}, m, q, r, 0, 0, vias[int(i)%len(vias)]))
	})
	c.States.Add(p8.Count())
	c.Set("names_shared_between_request_and_response_tables", len(shared))
	c.Set("atoms", map[string]int{"origins": len(c04OA), "methods": len(c04MA), "request_headers": len(c04QA), "response_headers": len(c04RA)})
	c.Set("products", map[string]any{"P1_switches_x_origin_lists": p1.Sizes, "P1_max_list_len": L, "P2_all_fields": p2.Sizes, "P3_single_atoms": p3.Sizes})
}

func checkC04(c *vlib.Ctx) (string, string) {
	ck := &Checker[c04Case]{C: c, Judge: c04Judge, Test: c04Test("C04")}
	rule := "all 32 switch combinations x (all origin-atom lists up to the stated length | per-field choices for every field x integer alphabets | every single atom in first/last position), through NewMiddleware and Reconfigure (from zero value and from a configured middleware); oracle: accepted => the reference validation over labelled atoms finds no violation, and a non-nil error comes with a nil *Middleware; non-trivial = distinct configuration with at least one violation"
	if ck.Replay() {
		return levelMC, rule
	}
	c04Explore(c, func(k c04Case) {
		c.Transitions.Add(1)
		if len(ref.Validate(c04Atom(k))) > 0 {
			c.Nontrivial.Add(1)
		}
		ck.Try(k)
	})
	c04FreshProcessPass(c, ck, "C04")
	return levelMC, rule
}

func checkC05(c *vlib.Ctx) (string, string) {
	ck := &Checker[c04Case]{C: c, Judge: c05Judge, Test: c04Test("C05")}
	rule := "same generator as C04; oracle: no expected violation => accepted; otherwise every element of cfgerrors.All(err) is a non-nil pointer to an exported cfgerrors type with a `cors: ` message, every expected violation is reported with the value as supplied and the documented Reason/Type/bounds, and every reported error corresponds to an expected violation; non-trivial = distinct configuration with at least two simultaneous violations"
	if ck.Replay() {
		return levelMC, rule
	}
	c04Explore(c, func(k c04Case) {
		c.Transitions.Add(1)
		if len(ref.Validate(c04Atom(k))) > 1 {
			c.Nontrivial.Add(1)
		}
		ck.Try(k)
	})
	c04FreshProcessPass(c, ck, "C05")
	return levelMC, rule
}

func init() {
	registry["C04"] = checkC04
	registry["C05"] = checkC05
	decode := func(judge func(c04Case) *vlib.Failure) func(json.RawMessage) *vlib.Failure {
		return func(raw json.RawMessage) *vlib.Failure {
			var k c04Case
			if err := json.Unmarshal(raw, &k); err != nil {
				vlib.HarnessError("fresh-process child: cannot decode case: %v", err)
			}
			return judge(k)
		}
	}
	childJudges["C04"], childJudges["C05"] = decode(c04Judge), decode(c05Judge)
}
