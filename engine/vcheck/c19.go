package main

import (
	"errors"
	"fmt"
	"sort"
	"strings"

	"github.com/jub0bs/cors"
	"github.com/jub0bs/cors/cfgerrors"
	"github.com/jub0bs/cors/internal/zzverif/vlib"
)

// C19 — cfgerrors.All yields exactly the leaves and honours early exit.
//
// Alphabet: every ordered rooted tree with at most N nodes whose nodes are J (errors.Join of >=1 children),
// L (a distinct leaf error) or N (a nil child, dropped by errors.Join); the root must not evaluate to nil.
// Bound: all trees x every break position 0..#leaves+1. Oracle: independent flattening of the tree text.

type c19Case struct {
	Tree    string `json:"tree"`                    // e.g. "J(L,J(L,N),L)"
	BreakAt int    `json:"break_at"`                // consumer stops after this many elements; -1 = never
	Mask    *int   `json:"defect_mask,omitempty"`   // second family: configuration with this set of independent violations
	Shared  bool   `json:"shared_leaves,omitempty"` // every leaf at an even position is the same field-less error value (it occurs at several positions)
}

type c19Leaf struct{ id int }

func (l *c19Leaf) Error() string { return fmt.Sprintf("cors: leaf %d", l.id) }

// c19Wrap is a leaf that has a cause of its own (as fmt.Errorf("...: %w", cause) produces): it has an Unwrap() error
// method, not an Unwrap() []error method, so it was not built by errors.Join and is one leaf, whatever its cause is.
type c19Wrap struct {
	id    int
	cause error
}

func (l *c19Wrap) Error() string { return fmt.Sprintf("cors: leaf %d: %v", l.id, l.cause) }
func (l *c19Wrap) Unwrap() error { return l.cause }

// c19Build turns the tree text into an error value and the list of leaf ids it must yield.
func c19Build(s string, shared bool) (error, []int) {
	pos, next := 0, 0
	var parse func() (error, []int)
	parse = func() (error, []int) {
		switch s[pos] {
		case 'L':
			pos++
			next++
			if shared && next%2 == 0 {
				// a field-less error type of the library: all such values are indistinguishable (and, being zero-size,
				// may even share one address); each occurrence is a leaf of its own and is yielded once per occurrence
				return new(cfgerrors.IncompatibleWildcardResponseHeaderNameError), []int{0}
			}
			if next%5 == 0 { // every fifth leaf wraps a cause: a join of two errors (5th, 15th...) or a plain error (10th, 20th...)
				var cause error = &c19Leaf{-next}
				if (next/5)%2 == 1 {
					cause = errors.Join(&c19Leaf{-next}, &cfgerrors.UnacceptableMethodError{Value: fmt.Sprint(-next - 1000), Reason: "invalid"})
				}
				return &c19Wrap{next, cause}, []int{next}
			}
			if next%3 == 0 { // every third leaf is one of the library's own error types
				return &cfgerrors.UnacceptableMethodError{Value: fmt.Sprint(next), Reason: "invalid"}, []int{next}
			}
			return &c19Leaf{next}, []int{next}
		case 'N':
			pos++
			return nil, nil
		case 'J':
			pos += 2 // "J("
			var kids []error
			var ids []int
			for {
				e, l := parse()
				kids = append(kids, e)
				ids = append(ids, l...)
				if s[pos] == ',' {
					pos++
					continue
				}
				pos++ // ")"
				break
			}
			return errors.Join(kids...), ids
		}
		panic("bad tree text " + s)
	}
	return parse()
}

func c19ID(e error) int {
	switch e := e.(type) {
	case *c19Leaf:
		return e.id
	case *c19Wrap:
		return e.id
	case *cfgerrors.UnacceptableMethodError:
		var n int
		fmt.Sscan(e.Value, &n)
		return n
	case *cfgerrors.IncompatibleWildcardResponseHeaderNameError:
		return 0
	}
	return -1
}

func c19Judge(k c19Case) *vlib.Failure {
	if k.Mask != nil {
		return c19JudgeConfig(*k.Mask)
	}
	err, want := c19Build(k.Tree, k.Shared)
	if err == nil {
		return nil // not an error value: outside the property's domain
	}
	// (1) direct call of the iterator function with a recording yield
	var got []int
	after := 0
	stopped := false
	cfgerrors.All(err)(func(e error) bool {
		if stopped {
			after++
			return false
		}
		got = append(got, c19ID(e))
		if k.BreakAt >= 0 && len(got) >= k.BreakAt {
			stopped = true
			return false
		}
		return true
	})
	if k.BreakAt == 0 {
		// a consumer that breaks immediately still receives the first element
		if len(got) != 1 || after != 0 {
			return vlib.Failf("break at first element: yielded %v, %d calls after the consumer stopped", got, after)
		}
	}
	if after != 0 {
		return vlib.Failf("yield was called %d more time(s) after it returned false (yielded %v)", after, got)
	}
	wantN := len(want)
	if k.BreakAt > 0 && k.BreakAt < wantN {
		wantN = k.BreakAt
	}
	if k.BreakAt == 0 {
		wantN = 1
	}
	if len(got) != wantN {
		return vlib.Failf("yielded %d elements %v, want %d of the leaves %v", len(got), got, wantN, want)
	}
	left := map[int]int{} // multiset of leaves not yet yielded
	for _, w := range want {
		left[w]++
	}
	for _, g := range got {
		if left[g] == 0 {
			return vlib.Failf("yielded leaf id %d more often than it occurs in the tree (or it is not a leaf); yielded %v, leaves %v", g, got, want)
		}
		left[g]--
	}
	// (3) an iter.Seq is a value that may be ranged over again: a pass that was cut short must not affect
	// a later full pass over the same value
	seq := cfgerrors.All(err)
	cnt := 0
	for range seq {
		cnt++
		if k.BreakAt >= 0 && cnt >= k.BreakAt {
			break
		}
	}
	var again []int
	for e := range seq {
		again = append(again, c19ID(e))
	}
	sort.Ints(again)
	ws := append([]int(nil), want...)
	sort.Ints(ws)
	if fmt.Sprint(again) != fmt.Sprint(ws) {
		return vlib.Failf("second pass over the same iterator value (after a first pass stopped at %d) yielded %v, want the leaves %v", k.BreakAt, again, ws)
	}
	// (4) iterations may be nested (the body of a loop over All(err) ranges over All of another error, or of the same
	// one): the outer pass must not notice
	other := errors.Join(&c19Leaf{-7}, errors.Join(&c19Leaf{-8}, &c19Leaf{-9}))
	var outer []int
	for e := range cfgerrors.All(err) {
		inner := 0
		for range cfgerrors.All(other) {
			inner++
		}
		for range cfgerrors.All(err) {
			inner++
		}
		if inner != 3+len(want) {
			return vlib.Failf("nested pass yielded %d elements, want %d", inner, 3+len(want))
		}
		if e == nil {
			return vlib.Failf("outer pass yielded nil after a nested pass")
		}
		outer = append(outer, c19ID(e))
	}
	sort.Ints(outer)
	if fmt.Sprint(outer) != fmt.Sprint(ws) {
		return vlib.Failf("outer pass with nested passes in its body yielded %v, want the leaves %v", outer, ws)
	}
	// (2) the same through a range statement: a missed early exit makes the Go runtime panic
	n := 0
	var got2 []int
	for e := range cfgerrors.All(err) {
		got2 = append(got2, c19ID(e))
		n++
		if k.BreakAt >= 0 && n >= k.BreakAt {
			break
		}
	}
	if len(got2) != len(got) {
		return vlib.Failf("range statement yielded %v, direct call yielded %v", got2, got)
	}
	sort.Ints(got2)
	g1 := append([]int(nil), got...)
	sort.Ints(g1)
	for i := range g1 {
		if g1[i] != got2[i] {
			return vlib.Failf("range statement yielded %v, direct call yielded %v", got2, got)
		}
	}
	return nil
}

// c19Trees enumerates all tree texts with exactly n nodes (J, L and N all count).
func c19Trees(n int, memo map[int][]string, forests map[[2]int][]string) []string {
	if r, ok := memo[n]; ok {
		return r
	}
	var res []string
	if n == 1 {
		res = []string{"L", "N"}
	} else {
		for _, f := range c19Forests(n-1, memo, forests) {
			res = append(res, "J("+f+")")
		}
	}
	memo[n] = res
	return res
}

// c19Forests enumerates all non-empty sequences of trees with n nodes in total.
func c19Forests(n int, memo map[int][]string, forests map[[2]int][]string) []string {
	key := [2]int{n, 0}
	if r, ok := forests[key]; ok {
		return r
	}
	var res []string
	for first := 1; first <= n; first++ {
		for _, t := range c19Trees(first, memo, forests) {
			if first == n {
				res = append(res, t)
				continue
			}
			for _, rest := range c19Forests(n-first, memo, forests) {
				res = append(res, t+","+rest)
			}
		}
	}
	forests[key] = res
	return res
}

func c19Test(k c19Case) string {
	return fmt.Sprintf(`package cfgerrors_test

// Build the error tree %q (J = errors.Join, L = distinct leaf error, N = nil child), range over
// cfgerrors.All(err) and break after %d element(s): the elements must be distinct leaves of the tree, exactly
// min(%d, #leaves) of them, and the iterator must not call yield again.
`, k.Tree, k.BreakAt, k.BreakAt)
}

func checkC19(c *vlib.Ctx) (string, string) {
	ck := &Checker[c19Case]{C: c, Judge: c19Judge, Test: c19Test}
	rule := "every ordered tree over {J=errors.Join(>=1 children), L=distinct leaf, N=nil child} with <=N nodes x every break position; non-trivial = tree has >=2 leaves under >=2 nested joins; plus every error returned by NewMiddleware for a family of multi-defect configurations (count of yielded errors = number of violations)"
	if ck.Replay() {
		return levelMC, rule
	}
	maxNodes := vlib.Pick(c, 9, 11)
	c.Set("max_nodes", maxNodes)
	memo, forests := map[int][]string{}, map[[2]int][]string{}
	shapes := 0
	for n := 1; n <= maxNodes && !c.Stopped(); n++ {
		trees := c19Trees(n, memo, forests)
		c.ParRange(int64(len(trees)), 256, "C19 trees", func(i int64) {
			t := trees[i]
			err, leaves := c19Build(t, false)
			if err == nil {
				return
			}
			c.States.Add(1)
			if len(leaves) >= 2 && strings.Count(t, "J") >= 2 {
				c.Nontrivial.Add(1)
			}
			c.SampleAt(i+1, func() any { return c19Case{Tree: t, BreakAt: len(leaves) / 2} })
			for b := -1; b <= len(leaves)+1; b++ {
				c.Transitions.Add(1)
				ck.Try(c19Case{Tree: t, BreakAt: b})
				if len(leaves) >= 2 {
					c.Transitions.Add(1)
					ck.Try(c19Case{Tree: t, BreakAt: b, Shared: true})
				}
			}
		})
		shapes += len(trees)
	}
	c.Set("tree_texts_enumerated", shapes)
	for mask := 0; mask < 1<<16 && !c.Stopped(); mask++ {
		c.States.Add(1)
		c.Transitions.Add(2)
		if mask&(mask-1) != 0 {
			c.Nontrivial.Add(1)
		}
		m := mask
		ck.Try(c19Case{Mask: &m})
	}
	return levelMC, rule
}

// c19JudgeConfig: for errors returned by NewMiddleware / Reconfigure the number of yielded errors equals the
// number of individual violations. Every subset of twelve violation settings is applied (nine independent single
// violations, three that repeat a violation).
func c19JudgeConfig(mask int) *vlib.Failure {
	cfg := cors.Config{Origins: []string{"https://example.com"}}
	want := 0
	set := func(bit int, f func()) {
		if mask&(1<<bit) != 0 {
			f()
			want++
		}
	}
	set(0, func() { cfg.Origins = append(cfg.Origins, "https://example.com/path") })
	set(1, func() { cfg.Origins = append(cfg.Origins, "null") })
	set(2, func() { cfg.Methods = append(cfg.Methods, "CONNECT") })
	set(3, func() { cfg.Methods = append(cfg.Methods, "bad method") })
	set(4, func() { cfg.RequestHeaders = append(cfg.RequestHeaders, "Cookie", "X-Ok") })
	if mask&(1<<4) != 0 && mask&(1<<3) != 0 {
		cfg.RequestHeaders = append(cfg.RequestHeaders, "Sec-Fetch Mode") // invalid and carrying a forbidden prefix: one violation
		want++
	}
	set(5, func() {
		// Set-Cookie2 is an ordinary request-header name and a forbidden response-header name: one violation
		cfg.ResponseHeaders = append(cfg.ResponseHeaders, "Set-Cookie2")
		cfg.RequestHeaders = append(cfg.RequestHeaders, "Set-Cookie2")
	})
	// (which out-of-range number is used rotates with the other bits of the mask: numbers that wrap back into range
	// when narrowed to 8, 16 or 32 bits are among them)
	rot := (mask>>8)*5 + mask&7
	set(6, func() {
		cfg.MaxAgeInSeconds = []int{86401, -2, 1<<32 + 5, -86400, 86400 + 1<<16, 100000, -1 << 31}[rot%7]
	})
	set(7, func() {
		cfg.PreflightSuccessStatus = []int{300, 199, 456, 500, 1000, -1, -56, 1<<32 + 204, 100, 556, 712, 65536 + 204, -312}[rot%13]
	})
	set(8, func() { cfg.PrivateNetworkAccess, cfg.PrivateNetworkAccessInNoCORSModeOnly = true, true })
	if mask&(1<<2|1<<3|1<<11) == 0 && mask&(1<<5) != 0 {
		// a valid wildcard among the methods (no violation of its own; the mask lists no bad method): what the other
		// fields did wrong is still all there
		cfg.Methods = append(cfg.Methods, "PUT", "*")
	}
	if mask&(1<<4) == 0 && mask&(1<<6) != 0 {
		cfg.RequestHeaders = append(cfg.RequestHeaders, "*", "Authorization")
	}
	// the same violation several times: each occurrence is a violation of its own
	set(9, func() { cfg.Credentialed = true; cfg.ResponseHeaders = append(cfg.ResponseHeaders, "*") })
	if mask&(1<<10) != 0 { // a second (and third) wildcard: violations only together with Credentialed
		cfg.ResponseHeaders = append(cfg.ResponseHeaders, "X-Foo", "*", "*")
		if cfg.Credentialed {
			want += 2
		}
	}
	// the two tolerate switches, set independently of each other
	cfg.DangerouslyTolerateInsecureOrigins = mask&(1<<13) != 0
	cfg.DangerouslyTolerateSubdomainsOfPublicSuffixes = mask&(1<<14) != 0
	if mask&(1<<15) != 0 {
		cfg.Origins = append(cfg.Origins, "https://*.com") // a violation unless the public-suffix switch is set
		if !cfg.DangerouslyTolerateSubdomainsOfPublicSuffixes {
			want++
		}
	}
	if mask&(1<<12) != 0 {
		// * listed before a pattern that needs the insecure switch: with credentials and with a PNA mode * is a
		// violation of its own, and so is the insecure pattern unless the insecure switch is set
		cfg.Origins = append([]string{"*", "http://insecure.example"}, cfg.Origins...)
		per := 2
		if cfg.DangerouslyTolerateInsecureOrigins {
			per = 1
		}
		if cfg.Credentialed {
			want += per
		}
		if cfg.PrivateNetworkAccess || cfg.PrivateNetworkAccessInNoCORSModeOnly {
			want += per
		}
	}
	if mask&(1<<11) != 0 {
		cfg.Methods = append(cfg.Methods, "CONNECT", "CONNECT")
		cfg.Origins = append(cfg.Origins, "null", "null")
		want += 4
	}
	for pass := 0; pass < 5; pass++ {
		var err error
		switch pass {
		case 0:
			_, err = cors.NewMiddleware(cfg)
		case 1:
			err = new(cors.Middleware).Reconfigure(&cfg)
		default:
			// a configured middleware, debug off / on / on and then a failed attempt before
			m, e0 := cors.NewMiddleware(cors.Config{Origins: []string{"https://other.example"}, RequestHeaders: []string{"X-A"}})
			if e0 != nil {
				return vlib.Failf("auxiliary configuration rejected: %v", e0)
			}
			m.SetDebug(pass >= 3)
			if pass == 4 {
				bad := cors.Config{}
				m.Reconfigure(&bad)
			}
			err = m.Reconfigure(&cfg)
		}
		if want == 0 {
			if err != nil {
				return vlib.Failf("valid configuration rejected: %v", err)
			}
			continue
		}
		if err == nil {
			return vlib.Failf("configuration with %d violations accepted", want)
		}
		got := 0
		for e := range cfgerrors.All(err) {
			if e == nil {
				return vlib.Failf("nil error yielded")
			}
			if _, f := c05Describe(e); f != nil {
				return vlib.Failf("pass %d: %s", pass, f.Detail)
			}
			got++
		}
		if got != want {
			return vlib.Failf("All yielded %d errors for a configuration with %d independent violations: %v", got, want, err)
		}
	}
	return nil
}

func init() { registry["C19"] = checkC19 }
