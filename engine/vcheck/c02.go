package main

import (
	"fmt"
	"net/http"
	"strings"

	"github.com/jub0bs/cors"
	"github.com/jub0bs/cors/internal/zzverif/ref"
	"github.com/jub0bs/cors/internal/zzverif/vlib"
)

// C02 — a Fetch-compliant browser's verdict equals what the configuration means.
//
// The composed system (real middleware || executable browser model) is run for every
// (configuration, intent, debug mode, tolerated ACRH perturbation) of a closed alphabet.

type CfgLit struct {
	Origins         []string `json:"origins"`
	Credentialed    bool     `json:"credentialed,omitempty"`
	Methods         []string `json:"methods,omitempty"`
	RequestHeaders  []string `json:"request_headers,omitempty"`
	MaxAge          int      `json:"max_age,omitempty"`
	ResponseHeaders []string `json:"response_headers,omitempty"`
	Status          int      `json:"status,omitempty"`
	PNA             bool     `json:"pna,omitempty"`
	PNANoCORS       bool     `json:"pna_nocors,omitempty"`
	TolInsecure     bool     `json:"tolerate_insecure,omitempty"`
	TolPSL          bool     `json:"tolerate_psl,omitempty"`
}

func (l CfgLit) Config() cors.Config {
	return cors.Config{
		Origins:         append([]string(nil), l.Origins...),
		Credentialed:    l.Credentialed,
		Methods:         append([]string(nil), l.Methods...),
		RequestHeaders:  append([]string(nil), l.RequestHeaders...),
		MaxAgeInSeconds: l.MaxAge,
		ResponseHeaders: append([]string(nil), l.ResponseHeaders...),
		ExtraConfig: cors.ExtraConfig{
			PreflightSuccessStatus:                        l.Status,
			PrivateNetworkAccess:                          l.PNA,
			PrivateNetworkAccessInNoCORSModeOnly:          l.PNANoCORS,
			DangerouslyTolerateInsecureOrigins:            l.TolInsecure,
			DangerouslyTolerateSubdomainsOfPublicSuffixes: l.TolPSL,
		},
	}
}

// ConfigAlt is the same configuration as Config() in a shape that is just as legal for a caller: all four lists
// are consecutive windows of ONE backing array with spare capacity behind each of them (an append to, or an
// in-place filter of, one list lands in the next), and unused lists are empty but non-nil.
func (l CfgLit) ConfigAlt() cors.Config {
	c := l.Config()
	total := len(l.Origins) + len(l.Methods) + len(l.RequestHeaders) + len(l.ResponseHeaders)
	back := make([]string, 0, total+8)
	window := func(src []string) []string {
		start := len(back)
		back = append(back, src...)
		return back[start:len(back):cap(back)]
	}
	c.Origins = window(l.Origins)
	c.Methods = window(l.Methods)
	c.RequestHeaders = window(l.RequestHeaders)
	c.ResponseHeaders = window(l.ResponseHeaders)
	return c
}

// GoLiteral renders the configuration as Go source for replay tests.
func (l CfgLit) GoLiteral() string {
	var b strings.Builder
	fmt.Fprintf(&b, "cors.Config{Origins: %#v", l.Origins)
	if l.Credentialed {
		b.WriteString(", Credentialed: true")
	}
	if l.Methods != nil {
		fmt.Fprintf(&b, ", Methods: %#v", l.Methods)
	}
	if l.RequestHeaders != nil {
		fmt.Fprintf(&b, ", RequestHeaders: %#v", l.RequestHeaders)
	}
	if l.MaxAge != 0 {
		fmt.Fprintf(&b, ", MaxAgeInSeconds: %d", l.MaxAge)
	}
	if l.ResponseHeaders != nil {
		fmt.Fprintf(&b, ", ResponseHeaders: %#v", l.ResponseHeaders)
	}
	fmt.Fprintf(&b, ", ExtraConfig: cors.ExtraConfig{PreflightSuccessStatus: %d, PrivateNetworkAccess: %t, PrivateNetworkAccessInNoCORSModeOnly: %t, DangerouslyTolerateInsecureOrigins: %t, DangerouslyTolerateSubdomainsOfPublicSuffixes: %t}}",
		l.Status, l.PNA, l.PNANoCORS, l.TolInsecure, l.TolPSL)
	return b.String()
}

func (l CfgLit) Policy() ref.Policy {
	return ref.Policy{Origins: l.Origins, Credentialed: l.Credentialed, Methods: l.Methods, RequestHeaders: l.RequestHeaders, PNA: l.PNA, PNANoCORS: l.PNANoCORS}
}

type c02Case struct {
	Cfg     CfgLit     `json:"config"`
	Intent  ref.Intent `json:"intent"`
	Debug   bool       `json:"debug"`
	Perturb int        `json:"perturb"` // 0 none, 1 OWS, 2 empty elements, 3 split in two lines, 4 all, 10+k split after element k
	// Route: how the middleware was brought into the configuration (see suite.go); WarmOrigin != "": on routes
	// that serve requests first, requests from this origin are among them
	Route      int    `json:"route,omitempty"`
	WarmOrigin string `json:"warm_origin,omitempty"`
	// HistN > 0: before the intent, the same handler runs the first HistN intents of the alphabet of origin choice
	// HistOC (HistRev: counted from the end, in reverse order), as the exploration does
	HistOC  int  `json:"history_origin_choice,omitempty"`
	HistN   int  `json:"history_length,omitempty"`
	HistRev bool `json:"history_reversed,omitempty"`
	// Preset: index into c02Presets (what the response header map already holds when the middleware runs)
	Preset int `json:"preset_response_headers,omitempty"`
}

// c02IntentsFor is set by checkC02 before anything else (the judge needs the alphabet to replay a history).
var c02IntentsFor func(oc int) []ref.Intent

func c02Warm(o string) []vlib.Req {
	if o == "" {
		return nil
	}
	return []vlib.Req{
		{Method: "OPTIONS", Hdr: map[string][]string{"Origin": {o}, "Access-Control-Request-Method": {"PUT"}, "Access-Control-Request-Headers": {"authorization,x-foo"}}},
		{Method: "GET", Hdr: map[string][]string{"Origin": {o}}},
	}
}

// splitsFor returns the perturbation codes 10+k for every split position of the intent's ACRH value.
func splitsFor(in ref.Intent) []int {
	v := ref.UnsafeHeaderValue(in.Headers)
	n := strings.Count(v, ",")
	out := make([]int, 0, n)
	for k := 1; k <= n; k++ {
		out = append(out, 10+k)
	}
	return out
}

// c02Perturb applies an alteration that the documentation says intermediaries may make.
func c02Perturb(lines []string, kind int) []string {
	if len(lines) != 1 || kind == 0 {
		return lines
	}
	els := strings.Split(lines[0], ",")
	if kind >= 10 {
		// 10+k: split into two field lines after the k-th element, nothing else altered
		k := kind - 10
		if k < 1 || k >= len(els) {
			return lines
		}
		return []string{strings.Join(els[:k], ","), strings.Join(els[k:], ",")}
	}
	ows := func(e []string) []string {
		out := make([]string, len(e))
		for i, x := range e {
			if i%2 == 0 {
				out[i] = " " + x + "\t"
			} else {
				out[i] = "\t" + x + " "
			}
		}
		return out
	}
	switch kind {
	case 1:
		return []string{strings.Join(ows(els), ",")}
	case 2:
		return []string{",," + strings.Join(els, ",,") + ","}
	case 3:
		if len(els) < 2 {
			return []string{lines[0], ""}
		}
		return []string{strings.Join(els[:len(els)/2], ","), strings.Join(els[len(els)/2:], ",")}
	case 4:
		e := ows(els)
		if len(e) < 2 {
			return []string{",", e[0] + ",", ""}
		}
		return []string{"," + strings.Join(e[:len(e)/2], ",,"), strings.Join(e[len(e)/2:], ",") + ","}
	}
	return lines
}

// c02Browse runs the browser model against a wrapped handler and returns the verdict with an explanation.
func c02Browse(h http.Handler, in ref.Intent, perturb int) (bool, string) {
	return c02BrowseRec(h, in, perturb, vlib.NewRec())
}

// c02BrowseRec is c02Browse with a caller-supplied recorder (cleared before each use).
func c02BrowseRec(h http.Handler, in ref.Intent, perturb int, rec *vlib.Rec) (bool, string) {
	return c02BrowseRecP(h, in, perturb, rec, 0)
}

// c02Presets: what the response header map may already hold when the middleware runs (put there by an outer layer)
// without bearing on the browser's CORS algorithm.
var c02Presets = []map[string][]string{nil, {"Vary": {"Origin"}}, {"Vary": {"Accept-Encoding", "Origin"}}, {"Vary": {"origin, Access-Control-Request-Headers"}}, {"X-Up": {"1"}, "Vary": {"Cookie"}},
	{"Vary": {}, "Access-Control-Allow-Origin": nil}}

func c02BrowseRecP(h http.Handler, in ref.Intent, perturb int, rec *vlib.Rec, preset int) (bool, string) {
	install := func() {
		rec.Reset()
		for k, v := range c02Presets[preset] {
			if v == nil {
				rec.H[k] = nil
			} else {
				rec.H[k] = append([]string{}, v...)
			}
		}
	}
	if ref.NeedsPreflight(in) {
		w := ref.PreflightWire(in)
		if l, ok := w.Hdr["Access-Control-Request-Headers"]; ok {
			w.Hdr["Access-Control-Request-Headers"] = c02Perturb(l, perturb)
		}
		install()
		h.ServeHTTP(rec, vlib.Req{Method: w.Method, Hdr: w.Hdr}.HTTP())
		st := rec.Status
		if st == 0 {
			st = 200
		}
		if ok, why := ref.PreflightOK(in, ref.Reply{Status: st, Hdr: rec.H}); !ok {
			return false, fmt.Sprintf("preflight: %s (status %d, headers %v)", why, st, rec.H)
		}
	}
	w := ref.ActualWire(in)
	install()
	h.ServeHTTP(rec, vlib.Req{Method: w.Method, Hdr: w.Hdr}.HTTP())
	if !ref.CORSCheck(in, ref.Reply{Status: 200, Hdr: rec.H}) {
		return false, fmt.Sprintf("CORS check failed on the actual response (headers %v)", rec.H)
	}
	return true, "success"
}

func c02Judge(k c02Case) *vlib.Failure {
	if _, err := cors.NewMiddleware(k.Cfg.Config()); err != nil {
		return nil // not an accepted configuration: outside the property's domain
	}
	bm, err := buildViaH(k.Route, k.Cfg, k.Debug, c02Warm(k.WarmOrigin)...)
	if err != nil {
		return vlib.Failf("configuration accepted by NewMiddleware but not through route %q: %v", routeNames[k.Route], err)
	}
	h := bm.wrap(http.HandlerFunc(func(http.ResponseWriter, *http.Request) {}))
	if k.HistN > 0 {
		ins := c02IntentsFor(k.HistOC)
		rec := vlib.NewRec()
		for j := 0; j < k.HistN && j < len(ins); j++ {
			in := ins[j]
			if k.HistRev {
				in = ins[len(ins)-1-j]
			}
			c02BrowseRec(h, in, 0, rec)
		}
	}
	got, why := c02BrowseRecP(h, k.Intent, k.Perturb, vlib.NewRec(), k.Preset)
	want := ref.Permits(k.Cfg.Policy(), k.Intent)
	if got != want {
		return vlib.Failf("browser verdict=%t (%s) but the configuration permits the request: %t; config=%s intent=%+v debug=%t perturbation=%d route=%q warm origin=%q intents served before on the same handler=%d (reversed: %t) pre-set response headers=%v", got, why, want, k.Cfg.GoLiteral(), k.Intent, k.Debug, k.Perturb, routeNames[k.Route], k.WarmOrigin, k.HistN, k.HistRev, c02Presets[k.Preset])
	}
	return nil
}

func c02Test(k c02Case) string {
	pre := ref.PreflightWire(k.Intent)
	if l, ok := pre.Hdr["Access-Control-Request-Headers"]; ok {
		pre.Hdr["Access-Control-Request-Headers"] = c02Perturb(l, k.Perturb)
	}
	act := ref.ActualWire(k.Intent)
	return fmt.Sprintf(`package cors_test

import ("net/http"; "net/http/httptest"; "testing"; "github.com/jub0bs/cors")

// The configuration permits the intent %+v: %t. A Fetch-compliant browser sends the preflight below (if one is
// needed: %t) and then the actual request; apply Fetch's CORS-preflight step 7 and CORS check by hand to the
// two responses printed by this test and compare.
func TestC02Replay(t *testing.T) {
	m, err := cors.NewMiddleware(%s)
	if err != nil { t.Fatal(err) }
	m.SetDebug(%t)
	h := wrap(m, http.HandlerFunc(func(http.ResponseWriter, *http.Request) {}))
	for _, r := range []struct{ method string; hdr http.Header }{{%q, %#v}, {%q, %#v}} {
		req := httptest.NewRequest(r.method, "/", nil); req.Header = r.hdr
		rec := httptest.NewRecorder(); h.ServeHTTP(rec, req)
		t.Logf("%%s -> %%d %%v", r.method, rec.Code, rec.Header())
	}
}
`, k.Intent, ref.Permits(k.Cfg.Policy(), k.Intent), ref.NeedsPreflight(k.Intent), k.Cfg.GoLiteral(), k.Debug, pre.Method, http.Header(pre.Hdr), act.Method, http.Header(act.Hdr))
}

// lists returns all ordered lists of length <= n over alpha (nil for the empty list).
func lists(alpha []string, n int) [][]string {
	w := vlib.NewWords(alpha, n)
	out := make([][]string, 0, w.Count())
	var tmp [8]int
	for i := int64(0); i < w.Count(); i++ {
		var l []string
		for _, s := range w.Syms(i, tmp[:0]) {
			l = append(l, alpha[s])
		}
		out = append(out, l)
	}
	return out
}

type c02OriginChoice struct {
	patterns []string
	origins  []string // intent origins: allowed and near-miss
}

func c02Alphabet(c *vlib.Ctx) (cfgs []CfgLit, intentsFor func(oc int) []ref.Intent, ocOf []int) {
	ochoices := []c02OriginChoice{
		{[]string{"*"}, []string{"https://a.example", "http://b.example:8080"}},
		{[]string{"https://a.example"}, []string{"https://a.example", "https://a.example:8443", "http://a.example", "https://xa.example"}},
		{[]string{"https://*.a.example"}, []string{"https://x.a.example", "https://y.x.a.example", "https://a.example", "https://xa.example"}},
		{[]string{"https://a.example:*"}, []string{"https://a.example", "https://a.example:8443", "https://x.a.example:8443", "http://a.example:8443"}},
		{[]string{"https://a.example", "https://*.b.example:*"}, []string{"https://a.example", "https://x.b.example:9", "https://b.example", "https://a.example.evil"}},
		{[]string{"https://a.example", "*"}, []string{"https://a.example", "http://b.example:8080"}},
		{[]string{"http://a.example:*", "https://a.example", "http://[::1]:8080"}, []string{"http://a.example:81", "https://a.example", "http://[::1]:8080", "https://a.example:81", "http://[::1]"}},
	}
	methodAlpha := []string{"*", "PUT", "put", "PATCH", "patch", "GET", "QUERY", "OPTIONS"}
	hdrAlpha := []string{"*", "Authorization", "AUTHORIZATION", "X-Foo", "x-bar"}
	mLists := lists(methodAlpha, vlib.Pick(c, 1, 2))
	hLists := lists(hdrAlpha, vlib.Pick(c, 2, 3))
	statuses := vlib.Pick(c, []int{0}, []int{0, 200})
	type mh struct{ m, h []string }
	var mhs []mh
	if c.Thorough() {
		// full product of (methods<=2 x headers<=2) plus (methods<=1 x headers<=3)
		h2 := lists(hdrAlpha, 2)
		m1 := lists(methodAlpha, 1)
		for _, m := range mLists {
			for _, h := range h2 {
				mhs = append(mhs, mh{m, h})
			}
		}
		for _, m := range m1 {
			for _, h := range hLists {
				if len(h) == 3 {
					mhs = append(mhs, mh{m, h})
				}
			}
		}
	} else {
		for _, m := range mLists {
			for _, h := range hLists {
				mhs = append(mhs, mh{m, h})
			}
		}
	}
	for oc, o := range ochoices {
		for _, cred := range []bool{false, true} {
			for pna := 0; pna < 3; pna++ {
				for xi, x := range mhs {
					for _, st := range statuses {
						if st != 0 && xi%8 != 0 {
							continue // the explicit success status is combined with every eighth (methods, headers) pair
						}
						cfgs = append(cfgs, CfgLit{Origins: o.patterns, Credentialed: cred, Methods: x.m, RequestHeaders: x.h, Status: st, PNA: pna == 1, PNANoCORS: pna == 2, TolPSL: true, TolInsecure: true})
						ocOf = append(ocOf, oc)
					}
				}
			}
		}
	}
	// realistic configurations: long lists, unusual token characters, interior integers (a small extra product)
	nBase := len(ochoices)
	ochoices = append(ochoices,
		c02OriginChoice{richOrigins, []string{"https://api-v2.example.co.uk", "https://deep.sub.example.co.uk", "https://xn--bcher-kva.example:49152", "https://xn--bcher-kva.example", "app+v1.0://host-1.internal:10000", "https://x.host-1.internal:65535", "https://example.co.uk:10443", "https://example.co.uk"}},
		c02OriginChoice{append([]string{"*"}, richOrigins[:3]...), []string{"https://api-v2.example.co.uk", "https://whatever.example:12345"}})
	for oc := nBase; oc < len(ochoices); oc++ {
		for _, cred := range []bool{false, true} {
			for pna := 0; pna < 3; pna++ {
				for _, m := range [][]string{richMethods, {"*"}, {"m-search", "Report"}} {
					for _, h := range [][]string{richReqHdrs, {"*", "Authorization"}, append([]string{"Authorization"}, richReqHdrs[2:5]...)} {
						cfgs = append(cfgs, CfgLit{Origins: ochoices[oc].patterns, Credentialed: cred, Methods: m, RequestHeaders: h, MaxAge: 600, Status: 201, PNA: pna == 1, PNANoCORS: pna == 2, TolPSL: true, TolInsecure: true})
						ocOf = append(ocOf, oc)
					}
				}
			}
		}
	}
	methods := []string{"GET", "POST", "PUT", "put", "PATCH", "patch", "DELETE", "QUERY", "OPTIONS", "options"}
	names := []string{"authorization", "x-foo", "X-Bar", "x-other"}
	if !c.Thorough() {
		names = []string{"authorization", "X-Bar", "x-other"}
	}
	cache := map[int][]ref.Intent{}
	for oc, o := range ochoices {
		var ins []ref.Intent
		methods, names := methods, names
		if oc >= nBase {
			methods = []string{"GET", "M-SEARCH", "m-search", "REPORT", "Report", "a*b!c", "delete", "PURGE"}
			names = []string{"authorization", "x-api_key.v2", "X-Trace~Id", "x-b3-traceid", "x-unlisted-1"}
		}
		for _, org := range o.origins {
			for _, m := range methods {
				for mask := 0; mask < 1<<len(names); mask++ {
					var hs []string
					for j, n := range names {
						if mask&(1<<j) != 0 {
							hs = append(hs, n)
						}
					}
					for _, cred := range []bool{false, true} {
						for _, pn := range []bool{false, true} {
							ins = append(ins, ref.Intent{Origin: org, Method: m, Headers: hs, Credentials: cred, PrivateNet: pn})
						}
					}
				}
			}
		}
		cache[oc] = ins
	}
	return cfgs, func(oc int) []ref.Intent { return cache[oc] }, ocOf
}

func checkC02(c *vlib.Ctx) (string, string) {
	ck := &Checker[c02Case]{C: c, Judge: c02Judge, Test: c02Test}
	rule := "full product configuration x browser intent x debug x tolerated ACRH perturbation over closed alphabets; each cell runs the real middleware against an executable transcription of Fetch's CORS-preflight fetch / CORS check / PNA check and compares the verdict with ref.Permits; non-trivial = distinct (configuration, intent) cell whose verdict is success"
	cfgs, intentsFor, ocOf := c02Alphabet(c)
	c02IntentsFor = intentsFor
	if ck.Replay() {
		return levelMC, rule
	}
	perturbs := vlib.Pick(c, []int{0, 4}, []int{0, 1, 2, 3, 4})
	var accepted, rejected int64
	c.ParRange(int64(len(cfgs)), 1, "C02 configurations", func(i int64) {
		lit := cfgs[i]
		if _, err := cors.NewMiddleware(lit.Config()); err != nil {
			c.Evaluations.Add(1)
			c.Transitions.Add(1)
			return
		}
		if i%2 == 1 {
			lit = minimalFlags(lit)
		}
		route := int(i % nRoutes)
		var hs [2]http.Handler
		for d := 0; d < 2; d++ {
			bm, err := buildViaH(route, lit, d == 1)
			if err != nil {
				ck.Report(c02Case{Cfg: lit, Route: route, Debug: d == 1}, vlib.Failf("configuration accepted by NewMiddleware but not through route %q: %v", routeNames[route], err))
				return
			}
			hs[d] = bm.wrap(http.HandlerFunc(func(http.ResponseWriter, *http.Request) {}))
		}
		c.States.Add(1)
		pol := lit.Policy()
		ins := intentsFor(ocOf[i])
		rec := vlib.NewRec()
		var evals, nontrivial int64
		for ii, in := range ins {
			want := ref.Permits(pol, in)
			if want {
				nontrivial++
			}
			for _, dbg := range []bool{false, true} {
				h := hs[0]
				if dbg {
					h = hs[1]
				}
				pts := perturbs
				if !dbg && len(in.Headers) >= 2 {
					// the plain list split into two field lines at every position
					pts = append(append(make([]int, 0, 8), perturbs...), splitsFor(in)...)
				}
				for _, pt := range pts {
					if pt != 0 && (len(in.Headers) == 0) {
						continue
					}
					if dbg && pt != 0 && pt != 4 {
						continue // debug mode does not look at the ACRH lines: none / all perturbations suffice
					}
					evals++
					got, _ := c02BrowseRec(h, in, pt, rec)
					if got != want {
						k := c02Case{Cfg: lit, Intent: in, Debug: dbg, Perturb: pt, Route: route}
						if f := vlib.Guard(func() *vlib.Failure { return c02Judge(k) }); f != nil {
							ck.Report(k, f)
						} else {
							// not reproducible on a fresh handler: then it is what was served before that matters
							kh := k
							kh.HistOC, kh.HistN = ocOf[i], ii
							if f := vlib.Guard(func() *vlib.Failure { return c02Judge(kh) }); f != nil {
								ck.Report(kh, f)
							} else {
								vlib.HarnessError("fast path and judge disagree on %+v (also after replaying the %d earlier intents)", k, ii)
							}
						}
					}
				}
			}
		}
		// the same intents in reverse order on a second handler (debug off, no perturbation): what an earlier exchange
		// leaves behind must not decide a later one
		if bm, err := buildViaH(route, lit, false); err == nil {
			h := bm.wrap(http.HandlerFunc(func(http.ResponseWriter, *http.Request) {}))
			for j := len(ins) - 1; j >= 0; j-- {
				evals++
				ps := 1 + j%(len(c02Presets)-1) // every pre-set variant in turn
				if got, _ := c02BrowseRecP(h, ins[j], 0, rec, ps); got != ref.Permits(pol, ins[j]) {
					k := c02Case{Cfg: lit, Intent: ins[j], Route: route, HistOC: ocOf[i], HistN: len(ins) - 1 - j, HistRev: true, Preset: ps}
					if f := vlib.Guard(func() *vlib.Failure { return c02Judge(k) }); f != nil {
						ck.Report(k, f)
					} else {
						vlib.HarnessError("reverse pass and judge disagree on %+v", k)
					}
					break
				}
			}
		}
		// second pass: for every origin, a middleware that has just served requests from that very origin under
		// another configuration (route 2) or is reconfigured while such a request is in flight (route 6)
		seenO := map[string]bool{}
		for _, in0 := range ins {
			if seenO[in0.Origin] {
				continue
			}
			seenO[in0.Origin] = true
			for _, r2 := range []int{2, 6} {
				if !c.Thorough() && (int(i)+r2/4)%2 == 0 {
					continue // quick tier: one of the two routes per configuration, alternating
				}
				m2, err := buildVia(r2, lit, false, c02Warm(in0.Origin)...)
				if err != nil {
					ck.Report(c02Case{Cfg: lit, Route: r2, WarmOrigin: in0.Origin}, vlib.Failf("configuration accepted by NewMiddleware but not through route %q: %v", routeNames[r2], err))
					continue
				}
				h2 := m2.Wrap(http.HandlerFunc(func(http.ResponseWriter, *http.Request) {}))
				for _, in := range ins {
					if in.Origin != in0.Origin {
						continue
					}
					evals++
					got, _ := c02BrowseRec(h2, in, 0, rec)
					if got != ref.Permits(pol, in) {
						k := c02Case{Cfg: lit, Intent: in, Route: r2, WarmOrigin: in0.Origin}
						if f := vlib.Guard(func() *vlib.Failure { return c02Judge(k) }); f != nil {
							ck.Report(k, f)
						} else {
							vlib.HarnessError("fast path and judge disagree on %+v", k)
						}
					}
				}
			}
		}
		c.Evaluations.Add(evals)
		c.Transitions.Add(evals * 2)
		c.Nontrivial.Add(nontrivial)
		c.SampleAt(i+1, func() any { return c02Case{Cfg: lit, Intent: ins[len(ins)/3], Route: route} })
	})
	for _, l := range cfgs {
		_ = l
	}
	_ = accepted
	_ = rejected
	c.Set("configurations_generated", len(cfgs))
	c.Set("configurations_accepted", c.States.Load())
	c.Set("intents_per_configuration", len(intentsFor(0)))
	c.Set("perturbations", perturbs)
	c02Tables(c, ck)
	return levelMC, rule
}

func init() { registry["C02"] = checkC02 }

// c02TableReplay re-runs a cell of the tables family up to the given exchange and judges that one.
func c02TableReplay(lit CfgLit, route int, debug bool, ins []ref.Intent, round, idx int) *vlib.Failure {
	bm, err := buildViaH(route, lit, debug)
	if err != nil {
		return vlib.Failf("configuration rejected: %v", err)
	}
	h := bm.wrap(http.HandlerFunc(func(http.ResponseWriter, *http.Request) {}))
	rec := vlib.NewRec()
	for r := 0; r <= round; r++ {
		for ii, in := range ins {
			got, why := c02BrowseRec(h, in, 0, rec)
			if r == 1 && got == ref.Permits(lit.Policy(), in) {
				got, why = c02BrowseRec(h, in, 0, rec)
			}
			if r == round && ii == idx {
				if want := ref.Permits(lit.Policy(), in); got != want {
					return vlib.Failf("after %d earlier exchanges on the same handler: browser verdict=%t (%s), the configuration permits the request: %t; config=%s intent=%+v", r*len(ins)+ii, got, why, want, lit.GoLiteral(), in)
				}
				return nil
			}
		}
	}
	return nil
}

// c02Tables: families that walk the lookup tables and the size thresholds rather than a product.
//   - every spelling (upper, lower, Title) of the methods browsers normalise and of some they do not, as the only
//     listed method x every such spelling as the intent's method;
//   - every request-header name "x-"+c (c a token character) as the only listed name x every such name requested;
//   - configurations whose lists have 17, 33, 65 and 130 entries (origins, methods, request-header names at once) x
//     one intent per entry and per near miss.
func c02Tables(c *vlib.Ctx, ck *Checker[c02Case]) {
	type cell struct {
		lit CfgLit
		ins []ref.Intent
	}
	var cells []cell
	const org = "https://a.example"
	variants := func(s string) []string {
		lo := strings.ToLower(s)
		return []string{strings.ToUpper(s), lo, strings.ToUpper(lo[:1]) + lo[1:]}
	}
	var mt []string
	for _, m := range []string{"GET", "HEAD", "POST", "PUT", "DELETE", "OPTIONS", "PATCH", "QUERY", "M-SEARCH", "PROPFIND"} {
		mt = append(mt, variants(m)...)
	}
	var mIntents []ref.Intent
	for _, m := range mt {
		mIntents = append(mIntents, ref.Intent{Origin: org, Method: m})
	}
	for _, m := range mt {
		cells = append(cells, cell{CfgLit{Origins: []string{org}, Methods: []string{m}}, mIntents})
	}
	var ht []string
	for b := 0x21; b < 0x7f; b++ {
		if ref.IsTchar(byte(b)) {
			ht = append(ht, "x-"+string(rune(b)))
		}
	}
	// (names the Fetch standard safelists depending on their value: browsers do list them in ACRH when the value is not safe)
	ht = append(ht, "accept", "accept-language", "content-language", "content-type", "range", "Accept", "CONTENT-TYPE")
	var hIntents []ref.Intent
	for _, h := range ht {
		hIntents = append(hIntents, ref.Intent{Origin: org, Method: "GET", Headers: []string{strings.ToLower(h)}})
	}
	for _, h := range ht {
		cells = append(cells, cell{CfgLit{Origins: []string{org}, RequestHeaders: []string{h}}, hIntents})
	}
	for _, n := range []int{17, 33, 65, 130} {
		lit := CfgLit{TolPSL: true}
		var ins []ref.Intent
		for i := 0; i < n; i++ {
			host := fmt.Sprintf("h%d.big.example", i)
			switch i % 4 {
			case 0:
				lit.Origins = append(lit.Origins, "https://"+host)
			case 1:
				lit.Origins = append(lit.Origins, "https://*."+host)
				host = "sub." + host
			case 2:
				lit.Origins = append(lit.Origins, fmt.Sprintf("https://%s:%d", host, 1000+i))
				host = fmt.Sprintf("%s:%d", host, 1000+i)
			case 3:
				lit.Origins = append(lit.Origins, "https://"+host+":*")
				host += ":77"
			}
			lit.Methods = append(lit.Methods, fmt.Sprintf("M%d", i))
			lit.RequestHeaders = append(lit.RequestHeaders, fmt.Sprintf("X-H%d", i))
			// the entry itself, and near misses of it
			ins = append(ins,
				ref.Intent{Origin: "https://" + host, Method: fmt.Sprintf("M%d", i), Headers: []string{fmt.Sprintf("x-h%d", i)}},
				ref.Intent{Origin: "https://x" + host, Method: "GET"},
				ref.Intent{Origin: "https://" + host, Method: fmt.Sprintf("M%d", i+n)},
				ref.Intent{Origin: "https://" + host, Method: "PUT", Headers: []string{fmt.Sprintf("x-h%d", i+n)}},
				ref.Intent{Origin: "https://" + host, Method: fmt.Sprintf("m%d", i), Headers: []string{fmt.Sprintf("x-h%d", n-1-i), fmt.Sprintf("x-h%d", i)}})
		}
		lit.Methods = append(lit.Methods, "PUT")
		cells = append(cells, cell{lit, ins})
		cred := lit
		cred.Credentialed = true
		cells = append(cells, cell{cred, ins})
	}
	// every length from 1 to 140 bytes of a configured request-header name and of a configured method (alone, and next
	// to short ones); asked with the name itself, with a name one byte shorter / longer, and with another name of the
	// same length
	for n := 1; n <= 140; n++ {
		hn, mn := "x"+strings.Repeat("h", n-1), "M"+strings.Repeat("E", n-1)
		ins := []ref.Intent{
			{Origin: org, Method: "GET", Headers: []string{hn}}, {Origin: org, Method: mn}, {Origin: org, Method: mn, Headers: []string{hn}},
			{Origin: org, Method: "GET", Headers: []string{hn + "h"}}, {Origin: org, Method: mn + "E"},
			{Origin: org, Method: "GET", Headers: []string{"y" + hn[1:]}}, {Origin: org, Method: "N" + mn[1:]},
			{Origin: org, Method: "GET", Headers: []string{"x-a", hn}}, {Origin: org, Method: "PUT", Headers: []string{hn}},
		}
		if n > 1 {
			ins = append(ins, ref.Intent{Origin: org, Method: "GET", Headers: []string{hn[:n-1]}}, ref.Intent{Origin: org, Method: mn[:n-1]})
		}
		cells = append(cells, cell{CfgLit{Origins: []string{org}, Methods: []string{mn}, RequestHeaders: []string{strings.ToUpper(hn)}}, ins},
			cell{CfgLit{Origins: []string{org}, Credentialed: true, Methods: []string{"PUT", mn}, RequestHeaders: []string{"X-A", hn, "X-Zz"}}, ins})
	}
	// labels of 62, 63 (the maximum) and 64 bytes in every position of a four-label host, as an exact pattern and
	// below a wildcard pattern
	for _, n := range []int{1, 62, 63, 64} {
		lab := strings.Repeat("l", n)
		for pos := 0; pos < 4; pos++ {
			labels := []string{"api", "svc", "example", "com"}
			labels[pos] = lab
			host := strings.Join(labels, ".")
			ins := []ref.Intent{{Origin: "https://" + host, Method: "GET"}, {Origin: "https://" + host, Method: "PUT", Headers: []string{"x-a"}}, {Origin: "https://x." + host, Method: "GET"},
				{Origin: "https://" + host + ":8443", Method: "GET"}, {Origin: "http://" + host, Method: "GET"}, {Origin: "https://" + host + ".", Method: "GET"}}
			cells = append(cells, cell{CfgLit{Origins: []string{"https://" + host}, Methods: []string{"PUT"}, RequestHeaders: []string{"X-A"}}, ins},
				cell{CfgLit{Origins: []string{"https://*." + strings.Join(labels[1:], "."), "http://" + host + ":*"}, Credentialed: true, TolInsecure: true, TolPSL: true, Methods: []string{"PUT"}, RequestHeaders: []string{"X-A"}}, ins})
		}
	}
	// two hosts that share more than the base domain, and a wildcard over the base domain under another scheme or port,
	// in every order
	for _, trio := range [][3]string{
		{"http://dev.app.example.com", "http://staging.app.example.com", "https://*.example.com"},
		{"https://eu-api.example.com:8443", "https://us-api.example.com:8443", "https://*.example.com"},
		{"https://api.example.com", "https://kpi.example.com", "http://*.example.com:*"},
		{"https://a.b.example.com", "https://c.b.example.com:9", "https://*.b.example.com:9"},
	} {
		var ins []ref.Intent
		for _, o := range []string{"http://dev.app.example.com", "http://staging.app.example.com", "https://dev.app.example.com", "https://x.example.com", "https://eu-api.example.com:8443", "https://us-api.example.com:8443", "https://eu-api.example.com",
			"https://api.example.com", "https://kpi.example.com", "http://api.example.com:81", "https://a.b.example.com", "https://c.b.example.com:9", "https://d.b.example.com:9", "https://a.b.example.com:9", "https://example.com"} {
			ins = append(ins, ref.Intent{Origin: o, Method: "GET"}, ref.Intent{Origin: o, Method: "PUT", Headers: []string{"x-a"}})
		}
		for _, p := range vlib.Permutations(3) {
			cells = append(cells, cell{CfgLit{Origins: []string{trio[p[0]], trio[p[1]], trio[p[2]]}, Methods: []string{"PUT"}, RequestHeaders: []string{"X-A"}, TolInsecure: true, TolPSL: true}, ins},
				cell{CfgLit{Origins: []string{trio[p[0]], trio[p[1]], trio[p[2]]}, Credentialed: true, Methods: []string{"PUT"}, RequestHeaders: []string{"X-A"}, TolInsecure: true, TolPSL: true}, ins})
		}
	}
	// one host under several schemes with different port sets, in every order of two and three patterns
	sp := []string{"https://a.example", "http://a.example:8080", "https://a.example:9", "http://a.example", "ws://a.example:8080", "https://*.a.example:8080", "http://*.a.example"}
	var spIntents []ref.Intent
	for _, sch := range []string{"https", "http", "ws"} {
		for _, host := range []string{"a.example", "x.a.example"} {
			for _, port := range []string{"", ":8080", ":9"} {
				spIntents = append(spIntents, ref.Intent{Origin: sch + "://" + host + port, Method: "GET"}, ref.Intent{Origin: sch + "://" + host + port, Method: "PUT", Headers: []string{"x-a"}})
			}
		}
	}
	for a := range sp {
		for b := range sp {
			if a == b {
				continue
			}
			cells = append(cells, cell{CfgLit{Origins: []string{sp[a], sp[b]}, Methods: []string{"PUT"}, RequestHeaders: []string{"X-A"}, TolInsecure: true}, spIntents})
			for d := range sp {
				if d != a && d != b && (a+b+d)%2 == 0 {
					cells = append(cells, cell{CfgLit{Origins: []string{sp[a], sp[b], sp[d]}, Credentialed: true, Methods: []string{"PUT"}, RequestHeaders: []string{"X-A"}, TolInsecure: true}, spIntents})
				}
			}
		}
	}
	c.ParRange(int64(len(cells)), 1, "C02 tables and sizes", func(i int64) {
		lit := cells[i].lit
		if _, err := cors.NewMiddleware(lit.Config()); err != nil {
			c.Evaluations.Add(1)
			return
		}
		route := int(i % nRoutes)
		rec := vlib.NewRec()
		c.States.Add(1)
		for d := 0; d < 2; d++ {
			bm, err := buildViaH(route, lit, d == 1)
			if err != nil {
				ck.Report(c02Case{Cfg: lit, Route: route, Debug: d == 1}, vlib.Failf("configuration accepted by NewMiddleware but not through route %q: %v", routeNames[route], err))
				return
			}
			h := bm.wrap(http.HandlerFunc(func(http.ResponseWriter, *http.Request) {}))
			// twice through on the same handler: whatever the first pass (up to several hundred distinct origins) left
			// behind must not decide the second
			for round := 0; round < 2; round++ {
				for ii, in := range cells[i].ins {
					want := ref.Permits(lit.Policy(), in)
					if want && round == 0 {
						c.Nontrivial.Add(1)
					}
					c.Evaluations.Add(1)
					c.Transitions.Add(2)
					got, _ := c02BrowseRec(h, in, 0, rec)
					if round == 1 && got == want {
						got, _ = c02BrowseRec(h, in, 0, rec) // in the second round every intent comes twice in a row
					}
					if got != want {
						k := c02Case{Cfg: lit, Intent: in, Debug: d == 1, Route: route}
						if f := vlib.Guard(func() *vlib.Failure { return c02Judge(k) }); f != nil {
							ck.Report(k, f)
						} else {
							ck.C.Violation(k, vlib.Failf("tables family, round %d: verdict %t for intent #%d %+v, the configuration permits it: %t; a fresh middleware gives the right verdict, so the answer depends on the %d exchanges served before on the same handler; config=%s", round+1, got, ii, in, want, round*len(cells[i].ins)+ii, lit.GoLiteral()),
								func() *vlib.Failure { return c02TableReplay(lit, route, d == 1, cells[i].ins, round, ii) }, "")
						}
					}
				}
			}
		}
	})
	c.Set("table_and_size_cells", len(cells))
}
