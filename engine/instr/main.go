// Command instr rewrites package cors (the non-test files in the root of -repo) for schedule exploration:
//
//   - imports of "sync" / "sync/atomic" are redirected to the scheduler's shim packages;
//   - every selection of a field of a struct declared in the package that holds a sync / atomic field (root
//     structs: scheduling point + race-detector event) or is reachable from such a struct (race-detector event
//     only) is wrapped in a hook: X.f becomes vhook.R(PX, offsetof f, "T.f").f, where PX is X or &X.
//
// Nothing is written into the repository: the rewritten files go to -out together with MAP.json (overlay
// entries) and REPORT.json (what was instrumented, what could not be).
package main

import (
	"encoding/json"
	"flag"
	"fmt"
	"go/ast"
	"go/importer"
	"go/parser"
	"go/printer"
	"go/token"
	"go/types"
	"os"
	"path/filepath"
	"sort"
	"strconv"
	"strings"
)

const (
	shimSync   = "github.com/jub0bs/cors/internal/zzverif/vsched/vsync"
	shimAtomic = "github.com/jub0bs/cors/internal/zzverif/vsched/vatomic"
	hookPkg    = "github.com/jub0bs/cors/internal/zzverif/vsched/vhook"
)

func fatal(format string, a ...any) {
	fmt.Printf("instr: "+format+"\n", a...)
	os.Exit(1)
}

func main() {
	repo := flag.String("repo", "/repo", "repository root (package cors)")
	out := flag.String("out", "", "output directory")
	flag.Parse()
	if *out == "" {
		fatal("-out is required")
	}
	if err := os.Chdir(*repo); err != nil {
		fatal("%v", err)
	}
	fset := token.NewFileSet()
	entries, err := os.ReadDir(".")
	if err != nil {
		fatal("%v", err)
	}
	var files []*ast.File
	var names []string
	for _, e := range entries {
		n := e.Name()
		if e.IsDir() || !strings.HasSuffix(n, ".go") || strings.HasSuffix(n, "_test.go") {
			continue
		}
		f, err := parser.ParseFile(fset, n, nil, parser.SkipObjectResolution)
		if err != nil {
			fatal("parse %s: %v", n, err)
		}
		files = append(files, f)
		names = append(names, n)
	}
	info := &types.Info{Types: map[ast.Expr]types.TypeAndValue{}, Selections: map[*ast.SelectorExpr]*types.Selection{}, Defs: map[*ast.Ident]types.Object{}, Uses: map[*ast.Ident]types.Object{}}
	conf := types.Config{Importer: importer.ForCompiler(fset, "source", nil), Error: func(err error) {}}
	pkg, err := conf.Check("github.com/jub0bs/cors", fset, files, info)
	if err != nil && pkg == nil {
		fatal("type check: %v", err)
	}
	// 1. tracked structs
	isSyncType := func(t types.Type) bool {
		for {
			if p, ok := t.(*types.Pointer); ok {
				t = p.Elem()
				continue
			}
			break
		}
		if n, ok := t.(*types.Named); ok && n.Obj().Pkg() != nil {
			p := n.Obj().Pkg().Path()
			return p == "sync" || p == "sync/atomic"
		}
		return false
	}
	structs := map[*types.Named]*types.Struct{}
	scope := pkg.Scope()
	for _, name := range scope.Names() {
		if tn, ok := scope.Lookup(name).(*types.TypeName); ok {
			if n, ok := tn.Type().(*types.Named); ok {
				if s, ok := n.Underlying().(*types.Struct); ok {
					structs[n] = s
				}
			}
		}
	}
	root := map[*types.Named]bool{}
	for n, s := range structs {
		for i := 0; i < s.NumFields(); i++ {
			if isSyncType(s.Field(i).Type()) {
				root[n] = true
			}
		}
	}
	reach := map[*types.Named]bool{}
	var visit func(t types.Type, depth int)
	visit = func(t types.Type, depth int) {
		if depth > 10 {
			return
		}
		switch t := t.(type) {
		case *types.Pointer:
			visit(t.Elem(), depth+1)
		case *types.Slice:
			visit(t.Elem(), depth+1)
		case *types.Array:
			visit(t.Elem(), depth+1)
		case *types.Map:
			visit(t.Key(), depth+1)
			visit(t.Elem(), depth+1)
		case *types.Named:
			if s, ok := structs[t]; ok && !reach[t] {
				reach[t] = true
				for i := 0; i < s.NumFields(); i++ {
					visit(s.Field(i).Type(), depth+1)
				}
			}
		}
	}
	for n := range root {
		visit(n, 0)
	}
	report := map[string]any{}
	var rootNames, reachNames []string
	for n := range root {
		rootNames = append(rootNames, n.Obj().Name())
	}
	for n := range reach {
		if !root[n] {
			reachNames = append(reachNames, n.Obj().Name())
		}
	}
	sort.Strings(rootNames)
	sort.Strings(reachNames)
	report["root_structs"] = rootNames
	report["reachable_structs"] = reachNames
	// 2. rewrite
	var unsupported []string
	hooks := map[string]int{}
	mapping := map[string]string{}
	if err := os.MkdirAll(*out, 0o755); err != nil {
		fatal("%v", err)
	}
	for fi, f := range files {
		// unsupported constructs
		ast.Inspect(f, func(n ast.Node) bool {
			if g, ok := n.(*ast.GoStmt); ok {
				fatal("%s: go statement inside package cors is not supported by the scheduler", fset.Position(g.Pos()))
			}
			return true
		})
		// write targets
		writes := map[*ast.SelectorExpr]bool{}
		unparen := func(e ast.Expr) ast.Expr {
			for {
				if p, ok := e.(*ast.ParenExpr); ok {
					e = p.X
					continue
				}
				return e
			}
		}
		ast.Inspect(f, func(n ast.Node) bool {
			switch s := n.(type) {
			case *ast.AssignStmt:
				for _, l := range s.Lhs {
					if sel, ok := unparen(l).(*ast.SelectorExpr); ok {
						writes[sel] = true
					}
				}
			case *ast.IncDecStmt:
				if sel, ok := unparen(s.X).(*ast.SelectorExpr); ok {
					writes[sel] = true
				}
			case *ast.UnaryExpr:
				if s.Op == token.AND {
					if sel, ok := unparen(s.X).(*ast.SelectorExpr); ok {
						writes[sel] = true // address escapes: conservatively a write
					}
				}
			case *ast.RangeStmt:
				for _, e := range []ast.Expr{s.Key, s.Value} {
					if e != nil {
						if sel, ok := unparen(e).(*ast.SelectorExpr); ok {
							writes[sel] = true
						}
					}
				}
			}
			return true
		})
		// collect field selections on tracked structs
		type target struct {
			sel   *ast.SelectorExpr
			owner *types.Named
			ptr   bool
		}
		var targets []target
		ast.Inspect(f, func(n ast.Node) bool {
			sel, ok := n.(*ast.SelectorExpr)
			if !ok {
				return true
			}
			s := info.Selections[sel]
			if s == nil || s.Kind() != types.FieldVal {
				return true
			}
			recv := s.Recv()
			isPtr := false
			if p, ok := recv.(*types.Pointer); ok {
				recv, isPtr = p.Elem(), true
			}
			owner, ok := recv.(*types.Named)
			if !ok || !reach[owner] {
				return true
			}
			if len(s.Index()) != 1 {
				unsupported = append(unsupported, fmt.Sprintf("%s: selection through an embedded field (%s) is not instrumented", fset.Position(sel.Pos()), sel.Sel.Name))
				return true
			}
			if isSyncType(s.Obj().Type()) {
				return true // operations on the lock itself are visible through the shim
			}
			if !isPtr && !info.Types[sel.X].Addressable() {
				unsupported = append(unsupported, fmt.Sprintf("%s: field of a non-addressable %s value (a temporary copy) is not instrumented", fset.Position(sel.Pos()), owner.Obj().Name()))
				return true
			}
			targets = append(targets, target{sel, owner, isPtr})
			return true
		})
		for _, t := range targets {
			fn := "R"
			if writes[t.sel] {
				fn = "W"
			}
			if !root[t.owner] {
				fn += "q"
			}
			name := t.owner.Obj().Name() + "." + t.sel.Sel.Name
			hooks[fn+" "+name]++
			px := t.sel.X
			if !t.ptr {
				px = &ast.UnaryExpr{Op: token.AND, X: px}
			}
			offset := &ast.CallExpr{
				Fun: &ast.SelectorExpr{X: ast.NewIdent("unsafe"), Sel: ast.NewIdent("Offsetof")},
				Args: []ast.Expr{&ast.SelectorExpr{
					X:   &ast.CompositeLit{Type: ast.NewIdent(t.owner.Obj().Name())},
					Sel: ast.NewIdent(t.sel.Sel.Name),
				}},
			}
			t.sel.X = &ast.CallExpr{
				Fun:  &ast.SelectorExpr{X: ast.NewIdent("vhook"), Sel: ast.NewIdent(fn)},
				Args: []ast.Expr{px, offset, &ast.BasicLit{Kind: token.STRING, Value: strconv.Quote(name)}},
			}
		}
		// whole-struct accesses through a pointer: *p = v / v = *p where *p is a tracked struct
		var stars []*ast.StarExpr
		starWrites := map[*ast.StarExpr]bool{}
		ast.Inspect(f, func(n ast.Node) bool {
			if as, ok := n.(*ast.AssignStmt); ok {
				for _, l := range as.Lhs {
					if st, ok := unparen(l).(*ast.StarExpr); ok {
						starWrites[st] = true
					}
				}
			}
			st, ok := n.(*ast.StarExpr)
			if !ok {
				return true
			}
			tv, ok := info.Types[st]
			if !ok || !tv.IsValue() {
				return true // a type expression such as *internalConfig
			}
			if named, ok := tv.Type.(*types.Named); ok && reach[named] {
				stars = append(stars, st)
			}
			return true
		})
		for _, st := range stars {
			named := info.Types[st].Type.(*types.Named)
			sstruct := structs[named]
			fn := "RqAll"
			if starWrites[st] {
				fn = "WqAll"
			}
			hooks[fn+" "+named.Obj().Name()]++
			args := []ast.Expr{st.X, &ast.BasicLit{Kind: token.STRING, Value: strconv.Quote(named.Obj().Name())}}
			for i := 0; i < sstruct.NumFields(); i++ {
				fld := sstruct.Field(i)
				if fld.Name() == "_" || isSyncType(fld.Type()) {
					continue
				}
				args = append(args, &ast.CallExpr{
					Fun:  &ast.SelectorExpr{X: ast.NewIdent("unsafe"), Sel: ast.NewIdent("Offsetof")},
					Args: []ast.Expr{&ast.SelectorExpr{X: &ast.CompositeLit{Type: ast.NewIdent(named.Obj().Name())}, Sel: ast.NewIdent(fld.Name())}},
				})
			}
			st.X = &ast.CallExpr{Fun: &ast.SelectorExpr{X: ast.NewIdent("vhook"), Sel: ast.NewIdent(fn)}, Args: args}
		}
		// imports
		for _, im := range f.Imports {
			p, _ := strconv.Unquote(im.Path.Value)
			switch p {
			case "sync":
				im.Path.Value = strconv.Quote(shimSync)
				if im.Name == nil {
					im.Name = ast.NewIdent("sync")
				}
			case "sync/atomic":
				im.Path.Value = strconv.Quote(shimAtomic)
				if im.Name == nil {
					im.Name = ast.NewIdent("atomic")
				}
			}
		}
		if len(targets) > 0 || len(stars) > 0 {
			addImport(f, "vhook", hookPkg)
			addImport(f, "unsafe", "unsafe")
		}
		dst := filepath.Join(*out, names[fi])
		w, err := os.Create(dst)
		if err != nil {
			fatal("%v", err)
		}
		if err := (&printer.Config{Mode: printer.UseSpaces | printer.TabIndent, Tabwidth: 8}).Fprint(w, token.NewFileSet(), f); err != nil {
			fatal("print %s: %v", names[fi], err)
		}
		w.Close()
		abs, _ := filepath.Abs(names[fi])
		mapping[abs] = dst
	}
	report["hooks"] = hooks
	report["unsupported_sites"] = unsupported
	total := 0
	for _, n := range hooks {
		total += n
	}
	report["hook_count"] = total
	writeJSON(filepath.Join(*out, "MAP.json"), mapping)
	writeJSON(filepath.Join(*out, "REPORT.json"), report)
	fmt.Printf("instr: %d files, %d hooks, root structs %v, reachable %v, %d unsupported sites\n", len(files), total, rootNames, reachNames, len(unsupported))
}

func addImport(f *ast.File, name, path string) {
	for _, im := range f.Imports {
		if p, _ := strconv.Unquote(im.Path.Value); p == path {
			return
		}
	}
	spec := &ast.ImportSpec{Name: ast.NewIdent(name), Path: &ast.BasicLit{Kind: token.STRING, Value: strconv.Quote(path)}}
	if name == path {
		spec.Name = nil
	}
	decl := &ast.GenDecl{Tok: token.IMPORT, Specs: []ast.Spec{spec}}
	f.Decls = append([]ast.Decl{decl}, f.Decls...)
	f.Imports = append(f.Imports, spec)
}

func writeJSON(path string, v any) {
	b, _ := json.MarshalIndent(v, "", " ")
	if err := os.WriteFile(path, b, 0o644); err != nil {
		fatal("%v", err)
	}
}
