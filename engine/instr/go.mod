module instr

go 1.23
