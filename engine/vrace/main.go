// Command vrace is the free-running supplement of C07: the same kinds of thread bodies as the schedule
// explorer, on the uninstrumented package with the real sync package, under the Go race detector. It can only
// add alarms (a DATA RACE report is a violation; silence adds nothing to the claim). It also covers memory
// below internalConfig (radix-tree nodes, sets), which the explorer's hooks do not see.
package main

import (
	"fmt"
	"net/http"
	"net/url"
	"os"
	"strconv"
	"sync"

	"github.com/jub0bs/cors"
)

func cfgA() cors.Config {
	return cors.Config{Origins: []string{"https://a.example", "https://*.a.example"}, Methods: []string{"PUT"}, RequestHeaders: []string{"X-A"}, ResponseHeaders: []string{"X-Ra"}, MaxAgeInSeconds: 30}
}

func cfgB() cors.Config {
	return cors.Config{Origins: []string{"https://b.example"}, Credentialed: true, Methods: []string{"DELETE", "PATCH"}, RequestHeaders: []string{"X-B", "Authorization"}, ResponseHeaders: []string{"X-Rb"}, MaxAgeInSeconds: -1,
		ExtraConfig: cors.ExtraConfig{PreflightSuccessStatus: 200, PrivateNetworkAccess: true}}
}

// cfgAplus keeps A's origin list as a prefix and adds patterns that land on the same tree nodes.
func cfgAplus() cors.Config {
	c := cfgA()
	c.Origins = append(c.Origins, "https://a.example:8443", "http://a.example", "https://*.x.a.example:*", "https://b.a.example")
	c.MaxAgeInSeconds, c.ResponseHeaders = 60, []string{"X-Rp"}
	return c
}

type rw struct {
	h      http.Header
	status int
}

func (w *rw) Header() http.Header         { return w.h }
func (w *rw) WriteHeader(c int)           { w.status = c }
func (w *rw) Write(p []byte) (int, error) { return len(p), nil }

var reqs = []struct {
	method string
	hdr    http.Header
}{
	{"OPTIONS", http.Header{"Origin": {"https://a.example"}, "Access-Control-Request-Method": {"DELETE"}, "Access-Control-Request-Headers": {"x-a"}}},
	{"OPTIONS", http.Header{"Origin": {"https://x.a.example"}, "Access-Control-Request-Method": {"PUT"}, "Access-Control-Request-Headers": {"x-a"}}},
	{"OPTIONS", http.Header{"Origin": {"https://b.example"}, "Access-Control-Request-Method": {"DELETE"}, "Access-Control-Request-Headers": {"authorization,x-b"}, "Access-Control-Request-Private-Network": {"true"}}},
	{"GET", http.Header{"Origin": {"https://a.example"}}},
	{"GET", http.Header{"Origin": {"https://a.example:8443"}}},
	{"GET", http.Header{"Origin": {"https://y.x.a.example:7"}}},
	{"GET", http.Header{"Origin": {"https://b.example"}}},
	{"OPTIONS", nil},
}

func main() {
	iters := 300
	if len(os.Args) > 1 {
		if n, err := strconv.Atoi(os.Args[1]); err == nil {
			iters = n
		}
	}
	for it := 0; it < iters; it++ {
		var m *cors.Middleware
		switch it % 3 {
		case 0:
			m, _ = cors.NewMiddleware(cfgA())
		case 1:
			m, _ = cors.NewMiddleware(cfgA())
			m.SetDebug(true)
		default:
			m = new(cors.Middleware)
		}
		h := m.Wrap(http.HandlerFunc(func(w http.ResponseWriter, r *http.Request) {
			// in-place edits of the values this request's handler can reach (they belong to this request only)
			for _, hd := range []http.Header{w.Header(), r.Header} {
				for _, v := range hd {
					for i := range v {
						v[i] += "~h"
					}
				}
			}
			w.Header().Set("X-Inner", "1")
		}))
		var wg sync.WaitGroup
		for g := 0; g < 3; g++ {
			wg.Add(1)
			go func(g int) {
				defer wg.Done()
				for i := 0; i < 8; i++ {
					r := reqs[(it+g+i)%len(reqs)]
					hdr := r.hdr.Clone()
					h.ServeHTTP(&rw{h: http.Header{}}, &http.Request{Method: r.method, Header: hdr, URL: &url.URL{Path: "/"}})
				}
			}(g)
		}
		wg.Add(2)
		go func() {
			defer wg.Done()
			for i := 0; i < 5; i++ {
				switch (it + i) % 5 {
				case 4:
					c := cfgAplus()
					m.Reconfigure(&c)
				case 0:
					c := cfgB()
					m.Reconfigure(&c)
				case 1:
					m.Reconfigure(nil)
				case 2:
					c := cfgA()
					m.Reconfigure(&c)
				case 3:
					m.Reconfigure(m.Config())
				}
			}
		}()
		go func() {
			defer wg.Done()
			for i := 0; i < 4; i++ {
				m.SetDebug(i%2 == 0)
				_ = m.Config()
			}
		}()
		// two more middlewares are configured, at the same time, from one Config value that nobody writes to (its
		// lists need filtering, folding and de-duplication): handing a value to the library is a read
		shared := cors.Config{Origins: []string{"https://a.example", "https://s.example", "https://a.example"}, Methods: []string{"GET", "PUT", "put"}, RequestHeaders: []string{"*", "Authorization", "X-S"},
			ResponseHeaders: []string{"Cache-Control", "X-Ra", "x-ra", "Content-Type"}, MaxAgeInSeconds: 30}
		for g := 0; g < 2; g++ {
			wg.Add(1)
			go func(g int) {
				defer wg.Done()
				if g == 0 {
					cors.NewMiddleware(shared)
					cors.NewMiddleware(shared)
				} else {
					m2 := new(cors.Middleware)
					m2.Reconfigure(&shared)
					m2.Reconfigure(&shared)
				}
			}(g)
		}
		wg.Wait()
	}
	fmt.Println("vrace: done", iters)
}
