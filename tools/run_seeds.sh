#!/usr/bin/env bash
# Re-evaluates every stored seed (seeded/*/) against the check of its property; writes seeded/RESULTS.md.
cd /verif
TMP=$(mktemp)
for d in seeded/*/; do
  n=$(basename "$d")
  prop=$(python3 -c "import json;print(json.load(open('$d/meta.json'))['property'])")
  dest=.
  if grep -q "^package cfgerrors" $d/*_test.go 2>/dev/null; then dest=cfgerrors; fi
  ./tools/seedeval.sh "$d" "$dest" "." "$prop" 2>&1 | grep '^SEED' >> "$TMP"
done
{
  echo "# Seeded changes re-evaluated against the current checks (quick tier)"
  echo
  echo "| seed | repo suite with change | demonstration with / without change | check verdict |"
  echo "|---|---|---|---|"
  sort "$TMP" | awk '{split($3,a,"=");split($4,b,"=");split($5,c,"=");printf "| %s | %s | %s / %s | %s |\n", $2, a[2], b[2], c[2], $6}'
} > seeded/RESULTS.md
rm -f "$TMP"
grep -c "=caught" seeded/RESULTS.md; grep -E "missed|error" seeded/RESULTS.md
