#!/usr/bin/env bash
# Re-evaluates every stored seed (seeded/*/) against the check of its property (PAR at a time, default 4);
# writes seeded/RESULTS.md.
cd /verif
TMP=$(mktemp -d)
one() {
  d=$1; n=$(basename "$d")
  prop=$(python3 -c "import json;print(json.load(open('$d/meta.json'))['property'])")
  dest=.
  if grep -q "^package cfgerrors" $d/*_test.go 2>/dev/null; then dest=cfgerrors; fi
  if grep -q "^package origins" $d/*_test.go 2>/dev/null; then dest=internal/origins; fi
  if grep -q "^package headers" $d/*_test.go 2>/dev/null; then dest=internal/headers; fi
  if [ -f "$d/DEST" ]; then dest=$(cat "$d/DEST"); fi
  SEEDEVAL_TIMEOUT=${SEEDEVAL_TIMEOUT:-1500} ./tools/seedeval.sh "$d" "$dest" "." "$prop" 2>&1 | grep '^SEED' > "$2/$n.txt"
}
export -f one
ls -d seeded/*/ | xargs -P "${PAR:-4}" -I{} bash -c 'one {} '"$TMP"
{
  echo "# Seeded changes re-evaluated against the current checks (quick tier)"
  echo
  echo "| seed | repo suite with change | demonstration with / without change | check verdict |"
  echo "|---|---|---|---|"
  cat "$TMP"/*.txt | sort | awk '{split($3,a,"=");split($4,b,"=");split($5,c,"=");printf "| %s | %s | %s / %s | %s |\n", $2, a[2], b[2], c[2], $6}'
} > seeded/RESULTS.md
rm -rf "$TMP"
grep -c "=caught" seeded/RESULTS.md; grep -E "missed|error|timeout" seeded/RESULTS.md
