#!/usr/bin/env bash
# Runs the thorough tier of every check (or of the given ones) sequentially; prints status and wall time.
cd /verif
IDS="${@:-C01 C02 C03 C04 C05 C06 C07 C08 C09 C10 C11 C12 C13 C14 C15 C16 C17 C18 C19}"
for id in $IDS; do
  s=$(date +%s)
  ./check $id --tier thorough > /tmp/thorough_$id.log 2>&1
  rc=$?
  e=$(date +%s)
  echo "$id rc=$rc wall=$((e-s))s $(grep -m1 "^$id tier" /tmp/thorough_$id.log | cut -c1-160)"
  grep "^cap:\|VIOLATION\|HARNESS" /tmp/thorough_$id.log | head -5
done
