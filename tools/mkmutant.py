#!/usr/bin/env python3
"""mkmutant.py <name> <file> <old> <new> [<file> <old> <new> ...]: writes /verif/mutants/<name>.patch (diff against /repo)."""
import subprocess, sys, tempfile, os, shutil
name = sys.argv[1]
args = sys.argv[2:]
out = []
for i in range(0, len(args), 3):
    f, old, new = args[i:i+3]
    src = open("/repo/" + f).read()
    if src.count(old) != 1:
        sys.exit("pattern occurs %d times in %s: %r" % (src.count(old), f, old))
    d = tempfile.mkdtemp()
    os.makedirs(os.path.join(d, "a", os.path.dirname(f)), exist_ok=True)
    os.makedirs(os.path.join(d, "b", os.path.dirname(f)), exist_ok=True)
    open(os.path.join(d, "a", f), "w").write(src)
    open(os.path.join(d, "b", f), "w").write(src.replace(old, new))
    p = subprocess.run(["diff", "-u", "a/" + f, "b/" + f], cwd=d, stdout=subprocess.PIPE, text=True)
    out.append(p.stdout)
    shutil.rmtree(d)
open("/verif/mutants/%s.patch" % name, "w").write("".join(out))
print("wrote /verif/mutants/%s.patch" % name)
