#!/usr/bin/env bash
# tools/seedeval.sh <seed-dir> <demo-dest-dir-relative-to-repo> <go-test-args-for-demo> <check IDs...>
# Confirms a seeded change independently (suite passes with it, demonstration fails with it and passes
# without it) and runs the named checks against a scratch copy carrying the change.
set -u
export GOFLAGS=-mod=mod GOPROXY=off GOSUMDB=off GOTOOLCHAIN=local
SEED="$(readlink -f "$1")"; DEST="$2"; DEMOARGS="$3"; shift 3
SCR="$(mktemp -d /tmp/vse.XXXXXX)"
trap 'rm -rf "$SCR" /verif/.build/$(printf %s "$SCR/repo" | sha1sum | cut -c1-10)' EXIT
mkdir "$SCR/repo" && (cd /repo && git ls-files -z | xargs -0 cp --parents -t "$SCR/repo")
cd "$SCR/repo"
patch -p1 -s < "$SEED/patch.diff" || { echo "SEED patch-failed"; exit 2; }
if go build ./... && go test -vet=off -count=1 ./... > "$SCR/suite.log" 2>&1; then SUITE=pass; else SUITE=fail; fi
mkdir -p "$SCR/repo/$DEST"
for f in "$SEED"/*_test.go "$SEED"/*.go; do [ -f "$f" ] && cp "$f" "$SCR/repo/$DEST/"; done 2>/dev/null
if (cd "$SCR/repo/$DEST" && eval timeout -k 5 600 go test -vet=off -count=1 $DEMOARGS) > "$SCR/demo_with.log" 2>&1; then WITH=pass; else WITH=fail; fi
patch -p1 -R -s < "$SEED/patch.diff"
if (cd "$SCR/repo/$DEST" && eval go test -vet=off -count=1 $DEMOARGS) > "$SCR/demo_without.log" 2>&1; then WITHOUT=pass; else WITHOUT=fail; fi
patch -p1 -s < "$SEED/patch.diff"
for f in "$SEED"/*_test.go; do [ -f "$f" ] && rm -f "$SCR/repo/$DEST/$(basename "$f")"; done
OUT="SEED $(basename "$SEED") suite=$SUITE demo_with_change=$WITH demo_without_change=$WITHOUT"
for ID in "$@"; do
  VERIF_REPO="$SCR/repo" VERIF_EVIDENCE_DIR="$SCR/evidence" timeout -k 5 "${SEEDEVAL_TIMEOUT:-1200}" /verif/check "$ID" --tier "${TIER:-quick}" > "$SCR/$ID.log" 2>&1
  case $? in
    1) OUT="$OUT $ID=caught"; grep -m1 '^detail:' "$SCR/$ID.log" | cut -c1-400;;
    0) OUT="$OUT $ID=missed";;
    124|137) OUT="$OUT $ID=timeout";;
    *) OUT="$OUT $ID=error"; tail -5 "$SCR/$ID.log";;
  esac
done
echo "$OUT"
