#!/usr/bin/env bash
# Runs every mutant in /verif/mutants against the check named by its file-name prefix and writes
# /verif/mutants/RESULTS.md. Usage: tools/run_mutants.sh [pattern]
cd /verif
PAT="${1:-*}"
OUT=/verif/mutants/RESULTS.md
TMP=$(mktemp)
TMPD=$(mktemp -d)
one() { # (PAR mutants at a time, default 4)
  id=$(basename "$1" | cut -d- -f1)
  timeout -k 5 "${SELFTEST_TIMEOUT:-1500}" ./selftest "$1" "$id" 2>&1 | grep '^MUTANT' > "$2/$(basename "$1").txt"
  [ -s "$2/$(basename "$1").txt" ] || echo "MUTANT $(basename "$1") tests=? $id=timeout" > "$2/$(basename "$1").txt"
}
export -f one
ls mutants/$PAT.patch | xargs -P "${PAR:-4}" -I{} bash -c 'one {} '"$TMPD"
cat "$TMPD"/*.txt > "$TMP"
rm -rf "$TMPD"
{
  echo "# Detection results for the hand-written mutants (quick tier)"
  echo
  echo "Each patch is applied to a scratch copy of /repo; \`tests\` says whether the repository's own suite still passes on it"
  echo "(a mutant that fails the suite is easier prey but is kept as a regression for the check); the last column is the verdict"
  echo "of the named check run against the copy (\`VERIF_REPO=<copy> ./check <ID>\`)."
  echo
  echo "| mutant | repo tests | check verdict |"
  echo "|---|---|---|"
  sort "$TMP" | awk '{printf "| %s | %s | %s |\n", $2, $3, $4}'
} > "$OUT"
rm -f "$TMP"
grep -c caught "$OUT"; grep -E "missed|error|timeout" "$OUT"
