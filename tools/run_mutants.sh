#!/usr/bin/env bash
# Runs every mutant in /verif/mutants against the check named by its file-name prefix and writes
# /verif/mutants/RESULTS.md. Usage: tools/run_mutants.sh [pattern]
cd /verif
PAT="${1:-*}"
OUT=/verif/mutants/RESULTS.md
TMP=$(mktemp)
for m in mutants/$PAT.patch; do
  id=$(basename "$m" | cut -d- -f1)
  ./selftest "$m" "$id" 2>&1 | grep '^MUTANT' >> "$TMP"
done
{
  echo "# Detection results for the hand-written mutants (quick tier)"
  echo
  echo "Each patch is applied to a scratch copy of /repo; \`tests\` says whether the repository's own suite still passes on it"
  echo "(a mutant that fails the suite is easier prey but is kept as a regression for the check); the last column is the verdict"
  echo "of the named check run against the copy (\`VERIF_REPO=<copy> ./check <ID>\`)."
  echo
  echo "| mutant | repo tests | check verdict |"
  echo "|---|---|---|"
  sort "$TMP" | awk '{printf "| %s | %s | %s |\n", $2, $3, $4}'
} > "$OUT"
rm -f "$TMP"
grep -c caught "$OUT"; grep -E "missed|error" "$OUT"
