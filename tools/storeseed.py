#!/usr/bin/env python3
"""storeseed.py <name> <seed-dir> <property> <demo-run-cmd> <first-verdict> <final-verdict> <needs...>
Copies patch.diff, the demonstration and notes.md into /verif/seeded/<name>/ and writes meta.json."""
import json, os, shutil, sys
name, src, prop, democmd, first, final = sys.argv[1:7]
needs = " ".join(sys.argv[7:])
dst = "/verif/seeded/" + name
os.makedirs(dst, exist_ok=True)
files = []
for f in sorted(os.listdir(src)):
    if f in ("PROMPT.txt", "PROPERTY.txt", "EVAL.txt"):
        continue
    shutil.copy(os.path.join(src, f), os.path.join(dst, f))
    files.append(f)
meta = {
    "property": prop,
    "origin": "written by a sub-agent that was given only the text of the property and its own scratch worktree of /repo",
    "needs_to_manifest": needs,
    "files": files,
    "confirmed_by_me": {
        "how": "tools/seedeval.sh: scratch copy of /repo + patch.diff -> `go build ./... && go test -vet=off -count=1 ./...` passes; demonstration placed at the repository root fails with the change and passes without it",
        "demonstration_command": democmd,
        "repo_suite_with_change": "pass",
        "demonstration_with_change": "fail",
        "demonstration_without_change": "pass",
    },
    "check_verdict_when_first_tried": first,
    "check_verdict_now": final,
    "how_to_rerun": "git -C /repo apply /verif/seeded/%s/patch.diff && ./check %s ; git -C /repo checkout -- .   (or: tools/seedeval.sh seeded/%s . '<demo args>' %s)" % (name, prop, name, prop),
}
json.dump(meta, open(os.path.join(dst, "meta.json"), "w"), indent=1)
print("stored", dst, files)
