#!/usr/bin/env python3-vt
"""Validate MANIFEST.json and every evidence file against the schemas in /root/.vp."""
import glob, json, sys, jsonschema
ok = True
def val(path, schema):
    global ok
    try:
        jsonschema.validate(json.load(open(path)), json.load(open(schema)))
        print("ok   ", path)
    except Exception as e:
        ok = False
        print("FAIL ", path, str(e).splitlines()[0])
val("/verif/MANIFEST.json", "/root/.vp/MANIFEST.schema.json")
man = json.load(open("/verif/MANIFEST.json"))
claimed = {c["property_id"] for c in man["checks"]}
na = {c["property_id"] for c in man.get("not_applicable", [])}
props = [json.loads(l)["id"] for l in open("/verif/properties.jsonl")]
for p in props:
    if (p in claimed) == (p in na):
        ok = False
        print("FAIL  property", p, "must be either claimed or not_applicable")
for f in sorted(glob.glob("/verif/evidence/*.json")):
    val(f, "/root/.vp/EVIDENCE.schema.json")
sys.exit(0 if ok else 1)
