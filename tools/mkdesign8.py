#!/usr/bin/env python3
"""Regenerates section 8 of DESIGN.md (detection table) from seeded/*/meta.json and mutants/RESULTS.md."""
import glob, json, os, re
rows = []
for d in sorted(x for x in glob.glob('/verif/seeded/*') if os.path.isdir(x)):
    m = json.load(open(d + '/meta.json'))
    rows.append((os.path.basename(d), m['property'], m['needs_to_manifest'], m['check_verdict_when_first_tried'], m['check_verdict_now']))
mut = {}
for l in open('/verif/mutants/RESULTS.md'):
    mm = re.match(r'\| (\S+)\.patch \| tests=(\w+) \| (\S+)=(\w+) \|', l)
    if mm:
        mut.setdefault(mm.group(3), []).append((mm.group(1), mm.group(2), mm.group(4)))
out = ["## 8. Which checks catch which changes", "",
       "### 8.1 Changes seeded by sub-agents (property text + scratch worktree only)", "",
       "Each was confirmed independently (`tools/seedeval.sh`): the repository's suite passes with the change, the agent's",
       "demonstration fails with it and passes without it. `first` is the verdict of my checks when the seed was first tried,",
       "`now` after the strengthening described in the last column of `meta.json` / §7.2. Patch, demonstration and notes are in",
       "`seeded/<name>/`.", "",
       "| seed | property | needs, in order to manifest | first verdict | verdict now |", "|---|---|---|---|---|"]
for r in rows:
    out.append("| %s | %s | %s | %s | %s |" % r)
missed = [r for r in rows if 'missed' in r[3].split('(')[0].split(',')[0]]
out += ["", "%d of %d seeds were missed by the targeted check at first; every miss was a gap in an *alphabet* (a combination of values that no" % (len(missed), len(rows)),
        "family contained), never in an oracle, and was closed by widening the alphabet - not by special-casing the seed.", "",
        "### 8.2 Hand-written mutants (`mutants/*.patch`, `tools/run_mutants.sh`)", "",
        "`tests` = does the repository's own suite still pass with the mutant applied.", "",
        "| check | mutants (tests / verdict) |", "|---|---|"]
for k in sorted(mut):
    out.append("| %s | %s |" % (k, "; ".join("%s (%s/%s)" % (n[len(k)+1:], t, v) for n, t, v in mut[k])))
s = open('/verif/DESIGN.md').read()
i = s.find('## 8. Which checks catch which changes')
if i >= 0:
    s = s[:i]
s = s.rstrip('\n') + '\n\n' + "\n".join(out) + "\n"
open('/verif/DESIGN.md', 'w').write(s)
print("section 8 written:", len(rows), "seeds,", sum(len(v) for v in mut.values()), "mutants")
