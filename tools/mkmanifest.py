#!/usr/bin/env python3
"""Regenerates MANIFEST.json from tools/manifest_src.json (one entry per built check)."""
import json
src = json.load(open("/verif/tools/manifest_src.json"))
props = [json.loads(l)["id"] for l in open("/verif/properties.jsonl")]
checks = []
for pid in props:
    e = src["checks"].get(pid)
    if not e:
        continue
    checks.append({
        "property_id": pid,
        "quick_cmd": "./check %s --tier quick" % pid,
        "thorough_cmd": "./check %s --tier thorough" % pid,
        "evidence_file": "/verif/evidence/%s.json" % pid,
        "replay_cmd_template": "./check %s --replay {path}" % pid,
        "engine": e["engine"],
        "level_claimed": {"category": "model_checking", "text": e["text"], "design_ref": "DESIGN.md section 3, " + pid},
        "level_note": e["note"],
        "technique": e["technique"],
    })
na = [{"property_id": p, "reason": src["not_applicable"].get(p, "check not built yet (work in progress); will be claimed once its exhaustive bounded check exists")}
      for p in props if p not in src["checks"]]
man = {
    "version": 1,
    "setup_cmd": "./check --setup",
    "hooks": src["hooks"],
    "engines": src["engines"],
    "checks": checks,
    "notes": src["notes"],
    "not_applicable": na,
}
json.dump(man, open("/verif/MANIFEST.json", "w"), indent=1)
print("claimed:", [c["property_id"] for c in checks])
